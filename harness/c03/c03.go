// Package c03 monitors "a TCP handshake is accepted at most once while its
// timestamp is acceptable" on the real StreamServer under a virtual clock.
package c03

import (
	"context"
	"encoding/binary"
	"fmt"
	"math"
	"net/netip"
	"sync"
	"sync/atomic"
	"time"

	"github.com/anishathalye/porcupine"
	"github.com/database64128/shadowsocks-go/conn"
	"github.com/database64128/shadowsocks-go/netio"
	"github.com/database64128/shadowsocks-go/ss2022"

	"verif/core"
	"verif/forge"
	"verif/netsim"
	"verif/ssx"
)

func init() {
	core.Register("C03", "history", runHistory)
	core.Register("C03", "concurrent", runConcurrent)
	core.Register("C03", "saltpool", runSaltPool)
}

var target = conn.AddrFromIPAndPort(netip.MustParseAddr("203.0.113.5"), 443)

// request is one handshake byte string the attacker/ client can present.
type request struct {
	bytes    []byte
	salt     []byte
	ts       int64 // unix seconds inside the header
	valid    bool  // genuinely keyed and well-formed
	accepted []time.Time
}

// presentIdle opens the connection first, lets it sit silent for d of (virtual) time while the
// real HandleStream is already waiting for bytes, and only then delivers the request. mk builds
// the bytes at delivery time. Only usable inside a bubble.
func presentIdle(srv *ss2022.StreamServer, d time.Duration, mk func() []byte) (ok bool, err error) {
	c, s := netsim.Pair(nil, nil, false)
	type res struct {
		req netio.ConnRequest
		err error
	}
	ch := make(chan res, 1)
	go func() {
		req, err := srv.HandleStream(s, ssx.Nop)
		ch <- res{req, err}
	}()
	time.Sleep(d)
	c.Write(mk())
	c.CloseWrite()
	r := <-ch
	s.Close()
	c.Close()
	if r.err != nil {
		return false, r.err
	}
	if !r.req.Addr.Equals(target) {
		return false, fmt.Errorf("accepted with wrong target %s", r.req.Addr)
	}
	return true, nil
}

// present feeds the bytes to a real HandleStream over a fresh transport.
func present(srv *ss2022.StreamServer, b []byte) (ok bool, err error) {
	c, s := netsim.Pair(nil, nil, false)
	c.Write(b)
	c.CloseWrite()
	req, err := srv.HandleStream(s, ssx.Nop)
	s.Close()
	c.Close()
	if err != nil {
		return false, err
	}
	if !req.Addr.Equals(target) {
		return false, fmt.Errorf("accepted with wrong target %s", req.Addr)
	}
	return true, nil
}

func forgeReq(cc *ss2022.ClientCipherConfig, keySize int, r *core.RNG, ts time.Time) *request {
	salt := r.Bytes(keySize)
	fr := forge.TCPRequest{Client: cc, Salt: salt, Timestamp: ts, Target: target, Payload: []byte("hello"), Padding: r.Intn(32), Type: -1}
	b, _, err := fr.Bytes()
	if err != nil {
		core.Fatalf("forge: %v", err)
	}
	return &request{bytes: b, salt: salt, ts: ts.Unix(), valid: true}
}

// realReq lets the real client build the request (timestamp = now, salt from crypto/rand).
func realReq(cfg *ssx.Cfg, ui int) *request {
	var got []byte
	in := &ssx.Inner{Record: true}
	cl := cfg.StreamClient(ui, in, true)
	cc, err := cl.DialStream(context.Background(), target, []byte("hello"))
	if err != nil {
		core.Fatalf("real client dial: %v", err)
	}
	got = in.Clients[0].Sent()
	cc.Close()
	return &request{bytes: got, salt: append([]byte{}, got[:cfg.KeySize]...), ts: time.Now().Unix(), valid: true}
}

func tsValid(ts int64, now time.Time) bool {
	// no subtraction of the request's value: it may be anywhere in the int64 range
	n := now.Unix()
	return ts >= n-30 && ts <= n+30
}

// extremeTS returns a timestamp far outside the window whose distance from now sits on an integer-width edge.
func extremeTS(r *core.RNG, now time.Time) int64 {
	n := now.Unix()
	return []int64{0, 1, -1, math.MaxInt64, math.MinInt64, n + math.MinInt64, n - 1 + math.MinInt64, math.MaxInt64 - 30, n + 1<<31, n - 1<<31, n + 1<<32, n - 1<<32, n + 1<<62, -n}[r.Intn(14)]
}

type hev struct {
	Op       string `json:"op"`
	Req      int    `json:"req,omitempty"`
	SkewS    int    `json:"skew_s,omitempty"`
	AtNs     int64  `json:"at_ns"`
	Accepted bool   `json:"accepted,omitempty"`
	Err      string `json:"err,omitempty"`
}

var advAlphabet = []time.Duration{1, time.Second - 1, time.Second, 29 * time.Second, 30*time.Second - 1, 30 * time.Second, 30*time.Second + 1, 31 * time.Second,
	59 * time.Second, time.Minute - 1, time.Minute, time.Minute + 1, 61*time.Second - 1, 61 * time.Second, 61*time.Second + 1, 2 * time.Minute}

var skews = []int{0, 0, 1, -1, 29, -29, 30, -30, 31, -31}

type hist struct {
	e     *core.Env
	ci    int
	sub   string
	cfg   *ssx.Cfg
	ui    int
	cc    *ss2022.ClientCipherConfig
	srv   *ss2022.StreamServer
	r     *core.RNG
	start time.Time
	reqs  []*request
	ev    []hev
	bad   bool
	// observed classes
	skewCls, gapCls map[string]bool
	known60         bool
	idle            time.Duration // next presentation happens on a connection that was idle this long
}

func (h *hist) viol(kind string, extra map[string]string, format string, a ...any) {
	sig := core.Sig("kind", kind, "part", h.sub)
	for k, v := range extra {
		sig[k] = v
	}
	h.e.Rec.Violate(h.sub, h.ci, sig, map[string]any{"keysize": h.cfg.KeySize, "multiuser": len(h.cfg.Users) > 0, "history": h.ev}, format, a...)
	h.bad = true
}

func gapClass(d time.Duration) string {
	switch {
	case d < time.Second:
		return "<1s"
	case d < 30*time.Second:
		return "<30s"
	case d < time.Minute:
		return "<60s"
	case d < 61*time.Second:
		return "[60s,61s)"
	default:
		return ">=61s"
	}
}

// presentReq presents request i and applies the oracle.
func (h *hist) presentReq(i int, op string) {
	q := h.reqs[i]
	var (
		ok  bool
		err error
	)
	if h.idle > 0 {
		// the connection is opened now and stays silent for h.idle; the request arrives afterwards
		d := h.idle
		h.idle = 0
		op += fmt.Sprintf("(conn idle %v first)", d)
		ok, err = presentIdle(h.srv, d, func() []byte { return q.bytes })
		// the server could first see the request now: that is the instant the oracle judges
		now := time.Now()
		h.judge(i, op, now, ok, err)
		return
	}
	now := time.Now()
	ok, err = present(h.srv, q.bytes)
	h.judge(i, op, now, ok, err)
}

func (h *hist) judge(i int, op string, now time.Time, ok bool, err error) {
	q := h.reqs[i]
	ev := hev{Op: op, Req: i, AtNs: int64(now.Sub(h.start)), Accepted: ok, SkewS: int(q.ts - now.Unix())}
	if err != nil {
		ev.Err = err.Error()
	}
	h.ev = append(h.ev, ev)
	valid := q.valid && tsValid(q.ts, now)
	switch {
	case ok && !q.valid:
		h.viol("forged_accepted", nil, "a corrupted / wrong-key request was accepted")
	case ok && !tsValid(q.ts, now):
		h.viol("stale_accepted", nil, "request with timestamp %+ds from the server clock accepted", q.ts-now.Unix())
	case ok && len(q.accepted) > 0:
		gap := now.Sub(q.accepted[len(q.accepted)-1])
		h.viol("replay_accepted", map[string]string{"gap": gapClass(gap)}, "same request accepted again %v after its previous acceptance (timestamp still valid: %+ds)", gap, q.ts-now.Unix())
		h.known60 = true
		h.bad = false // keep exploring this history: the model continues with the new acceptance
	case !ok && valid && len(q.accepted) == 0:
		h.viol("fresh_refused", nil, "never-accepted request with valid timestamp (%+ds) refused: %v", q.ts-now.Unix(), err)
	}
	if ok {
		q.accepted = append(q.accepted, now)
	}
	if len(q.accepted) > 1 || (len(q.accepted) == 1 && !ok && q.valid) {
		h.gapCls[gapClass(now.Sub(q.accepted[0]))+fmt.Sprint(ok)] = true
	}
	h.skewCls[fmt.Sprintf("%d/%v", clampSkew(q.ts-now.Unix()), ok)] = true
}

func clampSkew(s int64) int64 {
	if s > 32 {
		return 32
	}
	if s < -32 {
		return -32
	}
	return s
}

func (h *hist) fresh(skew int, real bool) int {
	var q *request
	if real && skew == 0 {
		q = realReq(h.cfg, h.ui)
	} else {
		q = forgeReq(h.cc, h.cfg.KeySize, h.r, time.Now().Add(time.Duration(skew)*time.Second))
	}
	h.reqs = append(h.reqs, q)
	return len(h.reqs) - 1
}

// poison presents damaged copies that carry request i's salt before the genuine one is (re)presented.
func (h *hist) poison(i int) {
	q := h.reqs[i]
	kinds := []string{"badtag", "wrongkey", "stale", "wrongtype", "truncated"}
	k := kinds[h.r.Intn(len(kinds))]
	var b []byte
	switch k {
	case "badtag":
		b = append([]byte{}, q.bytes...)
		// flip a bit inside the fixed-length header chunk (after salt and identity header)
		off := h.cfg.KeySize
		if len(h.cfg.Users) > 0 {
			off += 16
		}
		b[off+h.r.Intn(27)] ^= 1 << uint(h.r.Intn(8))
	case "wrongkey":
		other := h.cfg.ClientCipherForKey(forge.Key(h.cfg.KeySize, "c03/foreign"))
		fr := forge.TCPRequest{Client: other, Salt: q.salt, Timestamp: time.Now(), Target: target, Payload: []byte("x"), Type: -1}
		b, _, _ = fr.Bytes()
	case "stale":
		fr := forge.TCPRequest{Client: h.cc, Salt: q.salt, Timestamp: time.Now().Add(time.Duration(h.r.Pick(-31, 31, -3600, 86400)) * time.Second), Target: target, Payload: []byte("x"), Type: -1}
		b, _, _ = fr.Bytes()
	case "wrongtype":
		fr := forge.TCPRequest{Client: h.cc, Salt: q.salt, Timestamp: time.Now(), Target: target, Payload: []byte("x"), Type: 1}
		b, _, _ = fr.Bytes()
	case "truncated":
		// cut inside the salt / identity header / fixed-length header chunk: a cut after that chunk is an
		// authentic (if incomplete) request whose salt is legitimately consumed, not a failed authentication
		hdr := h.cfg.KeySize + 27
		if len(h.cfg.Users) > 0 {
			hdr += 16
		}
		b = append([]byte{}, q.bytes[:h.r.Intn(hdr)]...)
	}
	now := time.Now()
	ok, err := present(h.srv, b)
	ev := hev{Op: "poison:" + k, Req: i, AtNs: int64(now.Sub(h.start)), Accepted: ok}
	if err != nil {
		ev.Err = err.Error()
	}
	h.ev = append(h.ev, ev)
	if ok {
		h.viol("forged_accepted", map[string]string{"how": k}, "a %s copy of request %d was accepted", k, i)
	}
}

func newHist(e *core.Env, sub string, ci int, r *core.RNG) *hist {
	cfg := ssx.NewCfg(r.Pick(16, 32), r.Pick(0, 2), "c03")
	cfg.UDP = false
	h := &hist{e: e, ci: ci, sub: sub, cfg: cfg, r: r, start: time.Now(), skewCls: map[string]bool{}, gapCls: map[string]bool{}}
	if len(cfg.Users) > 0 {
		h.ui = r.Intn(len(cfg.Users))
	}
	h.cc = cfg.ClientCipher(h.ui)
	h.srv = cfg.StreamServer()
	return h
}

func (h *hist) finish() {
	rec := h.e.Rec
	rec.Count("presentations", int64(len(h.ev)))
	for k := range h.skewCls {
		rec.Class("%s/skew,outcome=%s", h.sub, k)
	}
	for k := range h.gapCls {
		rec.Class("%s/gap-since-first-acceptance,outcome=%s", h.sub, k)
	}
}

// symbols of the bounded-exhaustive alphabet
var exhSyms = []string{"idle31s", "idle61s", "adv29s", "adv30s", "adv31s", "adv59s", "adv60s-1ns", "adv60s", "adv60s+1ns", "adv61s-1ns", "adv61s",
	"fresh0", "fresh+30", "fresh-30", "fresh+31", "fresh-31", "replay-first", "replay-last", "poison-first", "poison-new"}

func (h *hist) apply(sym string) {
	adv := func(d time.Duration) {
		time.Sleep(d)
		h.ev = append(h.ev, hev{Op: "advance " + d.String(), AtNs: int64(time.Since(h.start))})
	}
	switch sym {
	case "idle31s":
		h.idle = 31 * time.Second
	case "idle61s":
		h.idle = 61 * time.Second
	case "adv29s":
		adv(29 * time.Second)
	case "adv30s":
		adv(30 * time.Second)
	case "adv31s":
		adv(31 * time.Second)
	case "adv59s":
		adv(59 * time.Second)
	case "adv60s-1ns":
		adv(time.Minute - 1)
	case "adv60s":
		adv(time.Minute)
	case "adv60s+1ns":
		adv(time.Minute + 1)
	case "adv61s-1ns":
		adv(61*time.Second - 1)
	case "adv61s":
		adv(61 * time.Second)
	case "fresh0":
		h.presentReq(h.fresh(0, h.r.Bool()), "fresh")
	case "fresh+30":
		h.presentReq(h.fresh(30, false), "fresh")
	case "fresh-30":
		h.presentReq(h.fresh(-30, false), "fresh")
	case "fresh+31":
		h.presentReq(h.fresh(31, false), "fresh")
	case "fresh-31":
		h.presentReq(h.fresh(-31, false), "fresh")
	case "replay-first":
		if len(h.reqs) > 0 {
			h.presentReq(0, "replay")
		}
	case "replay-last":
		if len(h.reqs) > 0 {
			h.presentReq(len(h.reqs)-1, "replay")
		}
	case "poison-first":
		if len(h.reqs) > 0 {
			h.poison(0)
			h.presentReq(0, "after-poison")
		}
	case "poison-new":
		i := h.fresh(h.r.Pick(0, 30, -30), false)
		h.poison(i)
		h.presentReq(i, "after-poison")
	}
}

func runHistory(e *core.Env) {
	rec := e.Rec
	rec.Rule("history: one case = a history over {advance d (1ns..2min around the 30/60/61 s edges), present fresh request with client skew -31..+31 s (forged or built by the real client), re-present an earlier request, present damaged copies carrying a request's salt before the genuine one}; class = (skew, outcome) and (gap since first acceptance, outcome) pairs observed; exhaustive sub-part enumerates all histories of the 20-symbol alphabet to the stated length, starting on a whole second and on a fractional second")
	depth := e.N(3, 4)
	// exhaustive: case index = first two symbols x start-fraction; inner loop enumerates the rest
	nsym := len(exhSyms)
	njobs := nsym * nsym * 2
	core.Parallel(e, "history-exh", njobs, 16, func(i int) {
		a, b, frac := i%nsym, (i/nsym)%nsym, i/(nsym*nsym)
		rec.Begin("history-exh", i, fmt.Sprintf("%s %s frac=%d", exhSyms[a], exhSyms[b], frac))
		idx := make([]int, depth)
		idx[0], idx[1] = a, b
		n := 0
		for {
			r := core.NewRNG(e.Seed, "c03.exh", i*1000003+n)
			var h *hist
			dead := core.Bubble(e, func() {
				if frac == 1 {
					time.Sleep(700*time.Millisecond + 1)
				}
				h = newHist(e, "history-exh", i, r)
				for k := 0; k < depth && !h.bad; k++ {
					h.apply(exhSyms[idx[k]])
				}
				h.finish()
			})
			if dead != "" {
				rec.Inconclusive("bubble:" + dead)
			}
			if n == 0 && i%61 == 0 && h != nil {
				rec.Sample(4, map[string]any{"symbols": symNames(idx), "history": h.ev})
			}
			n++
			k := depth - 1
			for ; k >= 2; k-- {
				idx[k]++
				if idx[k] < nsym {
					break
				}
				idx[k] = 0
			}
			if k < 2 {
				break
			}
		}
		rec.EvalN(n)
		rec.Count("histories_exhaustive", int64(n))
	})
	// random histories
	nr := e.N(2500, 120000)
	core.Parallel(e, "history-rnd", nr, 16, func(i int) {
		r := core.NewRNG(e.Seed, "c03.rnd", i)
		rec.Begin("history-rnd", i, "")
		var h *hist
		dead := core.Bubble(e, func() {
			if r.Bool() {
				time.Sleep(time.Duration(r.Intn(1000000000)))
			}
			h = newHist(e, "history-rnd", i, r)
			L := r.Range(3, 40)
			for k := 0; k < L && !h.bad; k++ {
				if r.Chance(1, 6) {
					h.idle = []time.Duration{time.Second, 30 * time.Second, 31 * time.Second, time.Minute, 61 * time.Second, 90 * time.Second}[r.Intn(6)]
				}
				switch op := r.Intn(10); {
				case op < 3:
					d := advAlphabet[r.Intn(len(advAlphabet))]
					time.Sleep(d)
					h.ev = append(h.ev, hev{Op: "advance " + d.String(), AtNs: int64(time.Since(h.start))})
				case op < 6:
					if r.Chance(1, 8) {
						// a timestamp whose distance from the clock sits on an integer-width edge: never acceptable
						h.reqs = append(h.reqs, forgeReq(h.cc, h.cfg.KeySize, h.r, time.Unix(extremeTS(r, time.Now()), 0)))
						h.presentReq(len(h.reqs)-1, "fresh")
						break
					}
					h.presentReq(h.fresh(skews[r.Intn(len(skews))], r.Chance(1, 4)), "fresh")
				case op < 8:
					if len(h.reqs) > 0 {
						h.presentReq(r.Intn(len(h.reqs)), "replay")
					}
				default:
					if len(h.reqs) > 0 && r.Bool() {
						j := r.Intn(len(h.reqs))
						h.poison(j)
						h.presentReq(j, "after-poison")
					} else {
						j := h.fresh(skews[r.Intn(len(skews))], false)
						h.poison(j)
						h.presentReq(j, "after-poison")
					}
				}
			}
			h.finish()
		})
		if dead != "" {
			rec.Inconclusive("bubble:" + dead)
		}
		if i%500 == 0 && h != nil {
			rec.Sample(8, map[string]any{"history": h.ev})
		}
		rec.Eval()
	})
}

func symNames(idx []int) []string {
	var s []string
	for _, i := range idx {
		s = append(s, exhSyms[i])
	}
	return s
}

// runConcurrent: k copies of one valid request presented at once: exactly one may be accepted.
func runConcurrent(e *core.Env) {
	rec := e.Rec
	rec.Rule("concurrent: one case = k (2..32) goroutines released together, each presenting the same valid request to one real server (optionally racing with fresh traffic that makes the pool contended); class = (k, number accepted, interleaving signature = order in which the copies returned)")
	n := e.N(300, 8000)
	core.Parallel(e, "concurrent", n, 4, func(i int) {
		// in a synctest bubble: the goroutines still race on real processors, but the clock the 30 s window is measured
		// on stands still, however loaded the machine is
		if dead := core.Bubble(e, func() { concurrentCase(e, i) }); dead != "" {
			rec.Inconclusive("bubble:" + dead)
		}
	})
}

func concurrentCase(e *core.Env, i int) {
	rec := e.Rec
	{
		r := core.NewRNG(e.Seed, "c03.conc", i)
		cfg := ssx.NewCfg(r.Pick(16, 32), r.Pick(0, 2), "c03c")
		cfg.UDP = false
		ui := 0
		if len(cfg.Users) > 0 {
			ui = r.Intn(len(cfg.Users))
		}
		cc := cfg.ClientCipher(ui)
		srv := cfg.StreamServer()
		k := r.Pick(2, 2, 3, 4, 8, 16, 32)
		rec.Begin("concurrent", i, fmt.Sprintf("k=%d", k))
		q := forgeReq(cc, cfg.KeySize, r, time.Now().Add(time.Duration(r.Pick(0, 5, -5))*time.Second))
		noise := r.Pick(0, 0, 4, 16)
		var noiseReqs []*request
		for j := 0; j < noise; j++ {
			noiseReqs = append(noiseReqs, forgeReq(cc, cfg.KeySize, r, time.Now()))
		}
		gate := make(chan struct{})
		var wg sync.WaitGroup
		var accepted atomic.Int32
		order := make([]int32, k)
		var seq atomic.Int32
		for j := 0; j < k; j++ {
			wg.Add(1)
			go func(j int) {
				defer wg.Done()
				<-gate
				ok, _ := present(srv, q.bytes)
				order[j] = seq.Add(1)
				if ok {
					accepted.Add(1)
				}
			}(j)
		}
		var noiseOK atomic.Int32
		for _, nq := range noiseReqs {
			wg.Add(1)
			go func(nq *request) {
				defer wg.Done()
				<-gate
				if ok, _ := present(srv, nq.bytes); ok {
					noiseOK.Add(1)
				}
			}(nq)
		}
		close(gate)
		wg.Wait()
		rec.Eval()
		rec.Count("concurrent_presentations", int64(k+noise))
		a := int(accepted.Load())
		d := map[string]any{"k": k, "accepted": a, "noise": noise, "return_order": order}
		if a > 1 {
			rec.Violate("concurrent", i, core.Sig("kind", "replay_accepted", "part", "concurrent", "gap", "concurrent"), d, "%d of %d concurrent copies of one request were accepted", a, k)
			return
		}
		if a == 0 {
			rec.Violate("concurrent", i, core.Sig("kind", "fresh_refused", "part", "concurrent"), d, "none of %d concurrent copies of a valid request was accepted", k)
			return
		}
		if int(noiseOK.Load()) != noise {
			rec.Violate("concurrent", i, core.Sig("kind", "fresh_refused", "part", "concurrent", "what", "noise"), d, "%d of %d distinct fresh requests refused under contention", noise-int(noiseOK.Load()), noise)
			return
		}
		first := 0
		for j := range order {
			if order[j] == 1 {
				first = j
			}
		}
		rec.Class("k=%d/noise=%d/first-returner=%d", k, noise, first%8)
		if i%400 == 0 {
			rec.Sample(8, d)
		}
	}
}

// --- porcupine check of SaltPool.Add / Contains under a fixed now ---

type spIn struct {
	Add  bool
	Salt int
}

func runSaltPool(e *core.Env) {
	rec := e.Rec
	rec.Rule("saltpool: one case = 8..32 goroutines calling SaltPool.Add(now, s)/Contains(s) on 1..4 salts with a fixed now; call/return stamped from one atomic counter; the history is checked with porcupine against a set model partitioned by salt; class = (goroutines, salts, #Add true)")
	n := e.N(600, 20000)
	model := porcupine.Model{
		Partition: func(h []porcupine.Operation) [][]porcupine.Operation {
			m := map[int][]porcupine.Operation{}
			for _, op := range h {
				m[op.Input.(spIn).Salt] = append(m[op.Input.(spIn).Salt], op)
			}
			var out [][]porcupine.Operation
			for _, v := range m {
				out = append(out, v)
			}
			return out
		},
		Init: func() any { return false },
		Step: func(st, in, out any) (bool, any) {
			present := st.(bool)
			if in.(spIn).Add {
				return out.(bool) == !present, true
			}
			return out.(bool) == present, present
		},
		DescribeOperation: func(in, out any) string {
			i := in.(spIn)
			if i.Add {
				return fmt.Sprintf("Add(s%d)=%v", i.Salt, out)
			}
			return fmt.Sprintf("Contains(s%d)=%v", i.Salt, out)
		},
	}
	core.Parallel(e, "saltpool", n, 4, func(i int) {
		r := core.NewRNG(e.Seed, "c03.saltpool", i)
		g := r.Pick(8, 8, 16, 32)
		ns := r.Range(1, 4)
		per := r.Range(2, 6)
		rec.Begin("saltpool", i, fmt.Sprintf("g=%d salts=%d per=%d", g, ns, per))
		var pool ss2022.SaltPool
		now := time.Unix(1700000000, 0)
		salts := make([][32]byte, ns)
		for k := range salts {
			copy(salts[k][:], r.Bytes(32))
		}
		// pre-populate some unrelated salts so that the list is not empty
		for k := 0; k < r.Intn(5); k++ {
			var s [32]byte
			copy(s[:], r.Bytes(32))
			pool.Add(now, s)
		}
		var clock atomic.Int64
		ops := make([][]porcupine.Operation, g)
		plan := make([][]spIn, g)
		for j := 0; j < g; j++ {
			for k := 0; k < per; k++ {
				plan[j] = append(plan[j], spIn{Add: r.Chance(2, 3), Salt: r.Intn(ns)})
			}
		}
		gate := make(chan struct{})
		var wg sync.WaitGroup
		for j := 0; j < g; j++ {
			wg.Add(1)
			go func(j int) {
				defer wg.Done()
				<-gate
				for _, in := range plan[j] {
					call := clock.Add(1)
					var out bool
					if in.Add {
						out = pool.Add(now, salts[in.Salt])
					} else {
						out = pool.Contains(salts[in.Salt])
					}
					ret := clock.Add(1)
					ops[j] = append(ops[j], porcupine.Operation{ClientId: j, Input: in, Call: call, Output: out, Return: ret})
				}
			}(j)
		}
		close(gate)
		wg.Wait()
		var all []porcupine.Operation
		adds := 0
		for _, o := range ops {
			all = append(all, o...)
			for _, x := range o {
				if x.Input.(spIn).Add && x.Output.(bool) {
					adds++
				}
			}
		}
		res, _ := porcupine.CheckOperationsVerbose(model, all, 20*time.Second)
		rec.Eval()
		rec.Count("saltpool_ops", int64(len(all)))
		switch res {
		case porcupine.Illegal:
			var desc []string
			for _, o := range all {
				desc = append(desc, fmt.Sprintf("c%d [%d,%d] %s", o.ClientId, o.Call, o.Return, model.DescribeOperation(o.Input, o.Output)))
			}
			rec.Violate("saltpool", i, core.Sig("kind", "not_linearizable", "part", "saltpool"), desc, "SaltPool history of %d operations is not linearizable against the set model (%d successful Adds for %d salts)", len(all), adds, ns)
		case porcupine.Unknown:
			rec.Inconclusive("porcupine-timeout")
		default:
			rec.Class("g=%d/salts=%d/adds-true=%d", g, ns, adds)
			if i%200 == 0 {
				var desc []string
				for _, o := range all[:min(len(all), 12)] {
					desc = append(desc, fmt.Sprintf("c%d [%d,%d] %s", o.ClientId, o.Call, o.Return, model.DescribeOperation(o.Input, o.Output)))
				}
				rec.Sample(8, desc)
			}
		}
	})
}

// ---- SaltPool with out-of-order clock readings ----

func init() { core.Register("C03", "saltpool-time", runSaltPoolTime) }

// HandleStream reads the clock before it takes the pool's lock, so concurrent handshakes hand Add clock readings
// that are not monotone: a handshake that stalls between the reading and the Add inserts "in the past". The part
// drives one pool sequentially with such readings (small steps back after mostly forward moves, jumps to the
// edges of the 60 s retention) and holds it against the only thing a caller relies on: a salt added with reading t
// is refused again as long as no reading of t+60 s or more has been handed to the pool (neither by this call nor by
// an earlier one), whatever else was added or pruned in between. (A call that arrives with an old reading after a
// newer reading has already expired the salt is accepted by the pool; seen from the server that acceptance happens
// at an instant >= t+60 s, which the statement covers only up to the timestamp's own validity - finding F1.)
func runSaltPoolTime(e *core.Env) {
	rec := e.Rec
	rec.Rule("saltpool-time: one case = a sequential history of 30..200 SaltPool.Add(now, s)/Contains(s) calls on 2..6 salts where now moves forward by steps from {0, 0.5 s, 1 s, 2 s, 30 s, 57..61 s} and sometimes back by up to 3 s (out-of-order insertion as stalled concurrent handshakes produce); model: salt -> reading of its accepted Add; class = (salts, back-steps taken, re-adds after expiry, refusals inside the window)")
	n := e.N(4000, 400000)
	core.Parallel(e, "saltpool-time", n, 8, func(i int) {
		r := core.NewRNG(e.Seed, "c03.saltpool-time", i)
		ns := r.Range(2, 6)
		nops := r.Pick(30, 80, 200)
		rec.Begin("saltpool-time", i, fmt.Sprintf("salts=%d ops=%d", ns, nops))
		rec.Eval()
		var pool ss2022.SaltPool
		salts := make([][32]byte, ns)
		for k := range salts {
			copy(salts[k][:], r.Bytes(32))
		}
		base := time.Unix(1700000000, 0)
		cur := time.Duration(0)      // furthest reading generated so far
		maxDone := time.Duration(-1) // furthest reading an Add has been called with
		added := map[int]time.Duration{}
		var trace []string
		backs, readds, refusals := 0, 0, 0
		for k := 0; k < nops; k++ {
			step := time.Duration(r.Pick(0, 0, 500, 1000, 1000, 2000, 30000, 57000, 58000, 59000, 59500, 60000, 61000)) * time.Millisecond
			cur += step
			now := cur
			if r.Chance(1, 3) {
				now -= time.Duration(r.Pick(1, 500, 1000, 2000, 3000)) * time.Millisecond
				if now < 0 {
					now = 0
				}
				backs++
			}
			s := r.Intn(ns)
			if r.Chance(1, 5) {
				got := pool.Contains(salts[s])
				trace = append(trace, fmt.Sprintf("Contains(s%d)=%v", s, got))
				if t, ok := added[s]; ok && t+ss2022.ReplayWindowDuration > maxDone && !got {
					rec.Violate("saltpool-time", i, core.Sig("kind", "salt_forgotten_early", "part", "saltpool-time", "op", "contains"), tailOf(trace, 40),
						"case %d: salt s%d was added with reading %v; the furthest reading handed to the pool is %v (< +60 s) and the pool no longer contains it", i, s, t, maxDone)
					return
				}
				continue
			}
			got := pool.Add(base.Add(now), salts[s])
			trace = append(trace, fmt.Sprintf("Add(%v, s%d)=%v", now, s, got))
			t, ok := added[s]
			maxDone = max(maxDone, now)
			switch {
			case ok && maxDone < t+ss2022.ReplayWindowDuration:
				if got {
					rec.Violate("saltpool-time", i, core.Sig("kind", "salt_forgotten_early", "part", "saltpool-time", "op", "add"), tailOf(trace, 40),
						"case %d: salt s%d was accepted with reading %v and accepted again with reading %v (%v later; no reading handed to the pool reached +60 s, the furthest was %v)", i, s, t, now, now-t, maxDone)
					return
				}
				refusals++
			case !ok:
				if !got {
					rec.Violate("saltpool-time", i, core.Sig("kind", "fresh_salt_refused", "part", "saltpool-time"), tailOf(trace, 40),
						"case %d: salt s%d was never added and is refused", i, s)
					return
				}
				added[s] = now
			default:
				// past its retention: either answer is acceptable; an accepted Add starts a new retention
				if got {
					added[s] = now
					readds++
				}
			}
		}
		rec.Count("saltpool_time_ops", int64(nops))
		rec.Class("salts=%d/backs=%s/readds=%s/refusals=%s", ns, bucket(backs), bucket(readds), bucket(refusals))
	})
	// bursts: many salts accepted close together expire in one pruning pass while a few later ones survive
	nb := e.N(200, 6000)
	core.Parallel(e, "saltpool-time", nb, 8, func(j int) {
		i := n + j
		r := core.NewRNG(e.Seed, "c03.saltpool-burst", j)
		burst := r.Pick(1, 64, 127, 128, 129, 200, 512, 2000)
		rec.Begin("saltpool-time", i, fmt.Sprintf("burst=%d", burst))
		rec.Eval()
		var pool ss2022.SaltPool
		base := time.Unix(1700000000, 0)
		salt := func(id int) (s [32]byte) {
			binary.BigEndian.PutUint64(s[:], uint64(id)+1)
			binary.BigEndian.PutUint64(s[8:], uint64(j))
			return
		}
		added := map[int]time.Duration{}
		maxDone := time.Duration(-1)
		var trace []string
		add := func(now time.Duration, id int) bool {
			got := pool.Add(base.Add(now), salt(id))
			if len(trace) < 400 {
				trace = append(trace, fmt.Sprintf("Add(%v, s%d)=%v", now, id, got))
			}
			maxDone = max(maxDone, now)
			t, ok := added[id]
			switch {
			case ok && maxDone < t+ss2022.ReplayWindowDuration:
				if got {
					rec.Violate("saltpool-time", i, core.Sig("kind", "salt_forgotten_early", "part", "saltpool-time", "op", "add", "shape", "burst"), tailOf(trace, 30),
						"case %d: after a burst of %d salts, salt s%d accepted with reading %v was accepted again with reading %v (no reading reached +60 s)", i, burst, id, t, now)
					return false
				}
			case !ok:
				if !got {
					rec.Violate("saltpool-time", i, core.Sig("kind", "fresh_salt_refused", "part", "saltpool-time", "shape", "burst"), tailOf(trace, 30), "case %d: salt s%d was never added and is refused", i, id)
					return false
				}
				added[id] = now
			default:
				if got {
					added[id] = now
				}
			}
			return true
		}
		t0 := time.Duration(r.Intn(5000)) * time.Millisecond
		for k := 0; k < burst; k++ {
			if !add(t0+time.Duration(r.Intn(200))*time.Millisecond, k) {
				return
			}
		}
		// a few survivors, accepted well after the burst
		ns := r.Range(1, 4)
		var surv []int
		for k := 0; k < ns; k++ {
			id := burst + k
			surv = append(surv, id)
			if !add(t0+time.Duration(r.Pick(20, 30, 45, 59))*time.Second+time.Duration(k)*time.Millisecond, id) {
				return
			}
		}
		// unrelated traffic after the burst has expired prunes it in one pass
		if !add(t0+time.Duration(r.Pick(60200, 61000, 65000))*time.Millisecond, burst+10) {
			return
		}
		// every survivor must still be refused
		for _, id := range r.Perm(len(surv)) {
			if !add(maxDone+time.Duration(r.Intn(3))*time.Millisecond, surv[id]) {
				return
			}
		}
		rec.Count("saltpool_time_ops", int64(len(trace)))
		rec.Class("burst=%d/survivors=%d", burst, ns)
	})
	// volume: a busy server accepts tens of thousands of handshakes inside one replay window; none of their salts may be
	// let go before its 60 s are over, however many came after it
	nv := e.N(2, 10)
	core.Parallel(e, "saltpool-time", nv, 2, func(j int) {
		i := n + nb + j
		r := core.NewRNG(e.Seed, "c03.saltpool-volume", j)
		vol := []int{70000, 100000, 66000, 140000, 300000}[j%5]
		rec.Begin("saltpool-time", i, fmt.Sprintf("volume=%d", vol))
		rec.Eval()
		var pool ss2022.SaltPool
		base := time.Unix(1700000000, 0)
		salt := func(id int) (s [32]byte) {
			binary.BigEndian.PutUint64(s[:], uint64(id)+1)
			binary.BigEndian.PutUint64(s[8:], uint64(j)|1<<40)
			return
		}
		span := time.Duration(r.Pick(5, 20, 50)) * time.Second
		at := func(id int) time.Duration { return time.Duration(int64(span) * int64(id) / int64(vol)) }
		for id := 0; id < vol; id++ {
			if !pool.Add(base.Add(at(id)), salt(id)) {
				rec.Violate("saltpool-time", i, core.Sig("kind", "fresh_salt_refused", "part", "saltpool-time", "shape", "volume"), nil, "case %d: salt s%d of %d was never added and is refused", i, id, vol)
				return
			}
		}
		// replays of the earliest salts and of a sample of the others, all while the newest reading is < their +60 s
		probe := []int{0, 1, 2, 63, 64, 65, 1023, 1024, 4095, 4096, 65535, 65536, vol - 1}
		for k := 0; k < 200; k++ {
			probe = append(probe, r.Intn(vol))
		}
		now := span + time.Duration(r.Pick(0, 1, 5))*time.Second // <= 55 s after the very first salt
		for _, id := range probe {
			if id >= vol {
				continue
			}
			if pool.Add(base.Add(now), salt(id)) {
				rec.Violate("saltpool-time", i, core.Sig("kind", "salt_forgotten_early", "part", "saltpool-time", "op", "add", "shape", "volume"), nil,
					"case %d: %d salts were accepted within %v; salt s%d, accepted with reading %v, was accepted again with reading %v", i, vol, span, id, at(id), now)
				return
			}
		}
		rec.Count("saltpool_time_ops", int64(vol+len(probe)))
		rec.Class("volume=%d/span=%v", vol, span)
	})
}

func bucket(n int) string {
	switch {
	case n == 0:
		return "0"
	case n < 4:
		return "1-3"
	case n < 16:
		return "4-15"
	default:
		return "16+"
	}
}

func tailOf(s []string, n int) []string {
	if len(s) > n {
		return s[len(s)-n:]
	}
	return s
}
