// Package c12 monitors "UDP sessions end cleanly: idle eviction, restart after
// eviction, prompt shutdown" on the real service manager with a virtual clock:
// lifecycle schedules (idle eviction, Stop at every phase incl. hook-directed
// ones, failing initialisation) are enumerated and the process is audited for
// leaked goroutines / sockets and for virtual time consumed by Stop.
package c12

import (
	"fmt"
	"net"
	"net/netip"
	"path/filepath"
	"runtime"
	"strings"
	"sync"
	"sync/atomic"
	"time"

	"github.com/database64128/shadowsocks-go/conn"
	"github.com/database64128/shadowsocks-go/verifhook"

	"verif/core"
	"verif/svx"
	"verif/vtime"
)

func init() {
	core.Register("C12", "lifecycle", runLifecycle)
}

type sched struct {
	S, C   string
	Batch  string
	Phase  string
	NSess  int
	Queued int
	// Dual: server A listens on the dual-stack wildcard address, so its IPv4 clients appear as IPv4-mapped addresses
	Dual bool
}

var phases = []string{
	"evict-and-restart", // traffic, nat-eps alive, refresh, nat+eps evicted, new session works
	"stop-idle",         // Stop before any packet
	"stop-established",  // Stop with quiet established sessions
	"stop-queued",       // Stop while bursts of packets are queued / being sent
	"stop-double",       // cancel twice / stop right after a timeout fired
	"stop-init-resolver", // Stop while session initialisation is blocked in name resolution
	"stop-hook-rearm",    // uplink paused after send, before re-arming the deadline, while Stop runs
	"stop-hook-swap",     // initialiser paused right before publishing its socket, while Stop runs
	"init-reject",        // router rejects: no session, nothing leaked
	"init-upstream-refused", // upstream proxy (SOCKS5 association) refused
	"evict-unsendable",      // a session none of whose packets can be sent out (unresolvable name) is still evicted when idle
	// a later service fails to start while the relay already carries sessions: Run itself stops what it started
	"failed-start-queued",        // ... with bursts in flight
	"failed-start-hook-rearm",    // ... with an uplink paused before re-arming the deadline
	"failed-start-init-resolver", // ... with a session initialisation held in name resolution
}

type world struct {
	inst    *svx.Instance
	down    *svx.Client
	targets []*svx.UDPTarget
	portA   int
	tport   int
	// failed-start phases: the host name server F listens on, and the function that lets its resolution fail
	failName    string
	failRelease func()
}

var (
	dnsOnce sync.Once
	fakeDNS *svx.FakeDNS
)

func startWorld(e *core.Env, ci int, s *sched, nat string, opt string) (*world, error) {
	dnsOnce.Do(func() { fakeDNS = svx.InstallFakeDNS() })
	w := &world{}
	ports := svx.FreePorts(4)
	w.portA, w.tport = ports[0], ports[2]
	t := &svx.Topo{Dir: filepath.Join(e.WorkDir, fmt.Sprintf("lc-%d", ci))}
	so := svx.ServerOpts{UDP: true, BatchMode: s.Batch, NATTimeout: nat}
	soA, soB := so, so
	soA.TCP = strings.HasPrefix(s.S, "socks5")
	soB.TCP = strings.HasPrefix(s.C, "socks5")
	if s.Dual {
		soA.Host = "[::]"
	}
	cfg := map[string]any{}
	nsrv := 1
	switch {
	case opt == "reject":
		cfg["servers"] = []any{t.Server("A", s.S, ports[0], soA)}
		cfg["clients"] = []any{svx.Direct("direct")}
		cfg["router"] = map[string]any{"defaultUDPClientName": "reject"}
	case opt == "refused":
		// client "up" is a SOCKS5 client whose server is a closed port
		cfg["servers"] = []any{t.Server("A", s.S, ports[0], soA)}
		cfg["clients"] = []any{t.ClientFor("up", "B", "socks5", ports[3], 0, false, true), svx.Direct("direct")}
		cfg["router"] = map[string]any{"defaultUDPClientName": "up", "defaultTCPClientName": "direct"}
	case s.C == "direct":
		cfg["servers"] = []any{t.Server("A", s.S, ports[0], soA)}
		cfg["clients"] = []any{svx.Direct("direct")}
	default:
		nsrv = 2
		if soB.TCP {
			nsrv++
		}
		cfg["servers"] = []any{t.Server("A", s.S, ports[0], soA), t.Server("B", s.C, ports[1], soB)}
		cfg["clients"] = []any{t.ClientFor("up", "B", s.C, ports[1], 1, false, true), svx.Direct("direct")}
		cfg["router"] = map[string]any{"defaultUDPClientName": "direct", "defaultTCPClientName": "direct",
			"routes": []any{map[string]any{"name": "a-up", "network": "udp", "fromServers": []any{"A"}, "client": "up"}}}
	}
	if soA.TCP {
		nsrv++
	}
	if strings.HasPrefix(s.Phase, "failed-start") {
		// server F comes last; its listen address is a host name whose resolution the harness holds, so that F's Start
		// is still under way while sessions are set up on A, and then fails (the name does not exist)
		w.failName = fmt.Sprintf("lcfail-%d-%d.test", ci, e.Seed)
		w.failRelease = fakeDNS.Hold(w.failName)
		cfg["servers"] = append(cfg["servers"].([]any), t.Server("F", "socks5", ports[3], svx.ServerOpts{TCP: true, Host: w.failName}))
	}
	inst, err := svx.Start(svx.JSON(cfg))
	if err != nil {
		return nil, err
	}
	w.inst = inst
	if !inst.WaitLogs("relay service listener", nsrv, 40*time.Second) {
		inst.Stop(10 * time.Second)
		return nil, fmt.Errorf("listeners did not start: %v", inst.LogLines(8))
	}
	down, err := svx.NewClient(svx.JSON(t.ClientFor("down", "A", s.S, ports[0], 0, false, true)))
	if err != nil {
		inst.Stop(10 * time.Second)
		return nil, err
	}
	w.down = down
	for k := 0; k < 2; k++ {
		ip := fmt.Sprintf("127.0.0.%d", 2+k)
		tg, err := svx.NewUDPTarget(fmt.Sprintf("T%d", k), ip, w.tport)
		if err != nil {
			return nil, err
		}
		w.targets = append(w.targets, tg)
		fakeDNS.Set(fmt.Sprintf("lc%d-%d.test", k, ci), ip)
	}
	return w, nil
}

func natFor(S, C string) (string, time.Duration) {
	if strings.HasPrefix(S, "ss") || strings.HasPrefix(C, "ss") {
		return "2m0s", 2 * time.Minute // SS2022 requires >= 60 s
	}
	return "1m0s", time.Minute
}

func runLifecycle(e *core.Env) {
	rec := e.Rec
	rec.Rule("lifecycle: one case = (relay kind via server protocol S: NAT relay for socks5/none, session relay for SS2022; upstream protocol C; batch mode; lifecycle phase from {evict-and-restart, stop-idle, stop-established, stop-queued (bursts in flight), stop-double, stop-init-resolver (initialiser held in name resolution), stop-hook-rearm / stop-hook-swap (goroutine held at a verif hook while Stop runs), init-reject, init-upstream-refused, evict-unsendable, failed-start-{queued, hook-rearm, init-resolver} (a later server, whose listen address is a held host name, fails to start while the relay carries sessions: Run stops the relay by itself, its context is not cancelled from outside)}; sessions 1..24; listener on 127.0.0.1 or on the dual-stack wildcard address, where IPv4 clients appear IPv4-mapped); after Run returns: goroutine count and socket count back to the pre-start baseline, listener port reusable, virtual time consumed by Stop < natTimeout/2; class = (S, C, batch, phase, hook reached)")
	type job struct{ s sched }
	var jobs []job
	// multi-user SS2022 servers: their credential store would make the service register a SIGUSR1 handler, after which
	// the fake clock can no longer advance; svx.Start leaves that registration out through a verif hook.
	pairs := [][2]string{{"socks5", "direct"}, {"ss128", "direct"}, {"none", "ss256"}, {"ss256", "socks5"}, {"ssmulti", "direct"}}
	if !e.Quick() {
		pairs = append(pairs, [2]string{"ss256", "none"}, [2]string{"socks5", "ss128"}, [2]string{"none", "direct"}, [2]string{"ss128", "ss256"}, [2]string{"socks5", "ssmulti"}, [2]string{"ssmulti", "ssmulti"})
	}
	reps := e.N(1, 6)
	for _, p := range pairs {
		for _, b := range []string{"", "no"} {
			for _, ph := range phases {
				for r := 0; r < reps; r++ {
					jobs = append(jobs, job{sched{S: p[0], C: p[1], Batch: b, Phase: ph, Dual: (len(jobs)+r)%3 == 1}})
				}
				// phases in which a session ends and the same client comes back: both listener kinds, always
				if ph == "evict-and-restart" || ph == "init-reject" {
					jobs = append(jobs, job{sched{S: p[0], C: p[1], Batch: b, Phase: ph, Dual: true}})
				}
			}
		}
	}
	vtime.Freeze()
	// warm-up: process-wide one-time goroutines (signal handling, resolver) must exist before baselines are taken
	if w, err := startWorld(e, -1, &sched{S: "socks5", C: "direct"}, "1m0s", ""); err == nil {
		w.inst.Stop(10 * time.Second)
		for _, t := range w.targets {
			t.Close()
		}
	}
	vtime.RealSleep(50 * time.Millisecond)
	core.Parallel(e, "lifecycle", len(jobs), 1, func(i int) {
		r := core.NewRNG(e.Seed, "c12.lifecycle", i)
		s := jobs[i].s
		s.NSess = r.Pick(1, 1, 3, 8, 24)
		s.Queued = r.Pick(1, 10, 40, 200)
		rec.Begin("lifecycle", i, fmt.Sprintf("%+v", s))
		rec.Eval()
		lifecycleCase(e, i, r, &s)
	})
}

func lifecycleCase(e *core.Env, ci int, r *core.RNG, s *sched) {
	rec := e.Rec
	natStr, nat := natFor(s.S, s.C)
	var w *world
	baseG := runtime.NumGoroutine()
	baseFD := svx.OpenFDs(true)
	opt := ""
	switch s.Phase {
	case "init-reject":
		opt = "reject"
	case "init-upstream-refused":
		opt = "refused"
	}
	var err error
	w, err = startWorld(e, ci, s, natStr, opt)
	if err != nil {
		rec.Inconclusive("setup: " + err.Error())
		rec.Note("setup %+v: %v", *s, err)
		return
	}
	violate := func(kind, format string, a ...any) {
		rec.Violate("lifecycle", ci, core.Sig("kind", kind, "part", "lifecycle", "phase", s.Phase, "S", s.S, "C", s.C, "batch", s.Batch, "dual", fmt.Sprint(s.Dual)),
			map[string]any{"schedule": s, "nat_timeout": natStr, "logs": w.inst.LogLines(25)}, format, a...)
	}
	var peers []*svx.UDPPeer
	closeAll := func() {
		for _, p := range peers {
			p.Close()
		}
		for _, t := range w.targets {
			t.Close()
		}
	}
	newPeers := func(n int) bool {
		for k := 0; k < n; k++ {
			p, err := w.down.NewUDPPeer("127.0.0.1")
			if err != nil {
				rec.Inconclusive("peer: " + err.Error())
				return false
			}
			peers = append(peers, p)
		}
		return true
	}
	tgt := func(k int, domain bool) conn.Addr {
		if domain {
			return conn.MustAddrFromDomainPort(fmt.Sprintf("lc%d-%d.test", k%2, ci), uint16(w.tport))
		}
		return conn.AddrFromIPPort(w.targets[k%2].Addr)
	}
	replies := func() int {
		n := 0
		for _, p := range peers {
			n += len(p.Got())
		}
		return n
	}
	roundTrip := func(label string) bool {
		before := replies()
		for k, p := range peers {
			p.Send(tgt(k, false), []byte(fmt.Sprintf("%s-%d", label, k)))
		}
		if !svx.Poll(30*time.Second, func() bool { return replies() >= before+len(peers) }) {
			violate("datagram_or_reply_lost", "%s: only %d of %d replies arrived", label, replies()-before, len(peers))
			return false
		}
		return true
	}
	hookReached := false
	stopped := false
	var afterReturn func()
	finish := func() {
		// ---- Stop and audit ----
		var sr svx.StopResult
		if w.failRelease != nil {
			// let server F's start fail: Run must stop the relay by itself and return false; the context handed to Run is
			// NOT cancelled by the harness until Run has returned (or an hour of virtual time has passed)
			if !svx.Poll(10*time.Second, func() bool { return fakeDNS.QueryCount(w.failName) > 0 }) {
				rec.Inconclusive("failed-start: server F never asked for its listen address")
			}
			w.failRelease()
			sr = w.inst.AwaitReturn(20 * time.Second)
			w.inst.Cancel()
			if !sr.Returned {
				sr2 := w.inst.AwaitReturn(20 * time.Second)
				sr.Returned, sr.RunOK = sr2.Returned, sr2.RunOK
				sr.Virtual += sr2.Virtual
			}
			if sr.Returned && sr.RunOK {
				violate("failed_start_reported_ok", "server F cannot listen (its host name does not resolve), yet Run returned true")
			}
		} else {
			sr = w.inst.Stop(20 * time.Second)
		}
		stopped = true
		verifhook.Set(nil)
		if afterReturn != nil {
			afterReturn() // e.g. let a withheld resolver answer go, so that the harness's own goroutines end before the audit
		}
		closeAll()
		if !sr.Returned {
			violate("stop_hung", "Run did not return within an hour of virtual time after cancellation")
			return
		}
		if sr.Virtual >= nat/2 {
			violate("stop_waited_for_nat_timeout", "Stop consumed %v of virtual time (NAT timeout %v): it waited for a timer instead of in-flight work", sr.Virtual, nat)
			return
		}
		okG := svx.Poll(20*time.Second, func() bool { return runtime.NumGoroutine() <= baseG })
		if !okG {
			violate("goroutine_leak", "%d goroutines after Stop, %d before start", runtime.NumGoroutine(), baseG)
			return
		}
		okF := svx.Poll(15*time.Second, func() bool { return svx.OpenFDs(true) <= baseFD })
		if !okF {
			violate("socket_leak", "%d sockets open after Stop, %d before start", svx.OpenFDs(true), baseFD)
			return
		}
		// listener port reusable
		if uc, err := net.ListenUDP("udp", &net.UDPAddr{IP: net.IPv4(127, 0, 0, 1), Port: w.portA}); err != nil {
			violate("port_not_released", "listener port still bound after Stop: %v", err)
			return
		} else {
			uc.Close()
		}
		rec.Count("stops_audited", 1)
		rec.Class("%s>%s/batch=%q/%s/hook=%v/dual=%v", s.S, s.C, s.Batch, s.Phase, hookReached, s.Dual)
		if ci%9 == 0 {
			rec.Sample(8, map[string]any{"schedule": s, "stop_virtual": sr.Virtual.String(), "goroutines_before": baseG, "goroutines_after": runtime.NumGoroutine()})
		}
	}
	defer func() {
		if !stopped {
			verifhook.Set(nil)
			w.inst.Stop(20 * time.Second)
			closeAll()
		}
	}()

	switch s.Phase {
	case "evict-and-restart":
		if !newPeers(min(s.NSess, 8)) || !roundTrip("first") {
			return
		}
		srcPorts := map[uint16]bool{}
		for _, t := range w.targets {
			for _, d := range t.Got() {
				srcPorts[d.Raw.Port()] = true
			}
		}
		vtime.Advance(nat - time.Second)
		finished := w.inst.CountLogs("Finished relay serverConn <- natConn")
		if finished != 0 {
			violate("evicted_early", "%d sessions were torn down %v before the NAT timeout", finished, time.Second)
			return
		}
		if !roundTrip("refresh") {
			return
		}
		// same upstream sockets => same source ports at the targets
		for _, t := range w.targets {
			for _, d := range t.Got() {
				if !srcPorts[d.Raw.Port()] {
					violate("session_not_reused", "a refresh within the NAT timeout used a new upstream socket (source port %d)", d.Raw.Port())
					return
				}
			}
		}
		vtime.Advance(nat + time.Second)
		want := len(peers)
		if s.C != "direct" {
			want *= 2
		}
		if !w.inst.WaitLogs("Finished relay serverConn <- natConn", want, 30*time.Second) {
			violate("not_evicted", "only %d of %d sessions were torn down %v after the last client packet", w.inst.CountLogs("Finished relay serverConn <- natConn"), want, nat+time.Second)
			return
		}
		if !roundTrip("restart") {
			return
		}
		fresh := false
		for _, t := range w.targets {
			for _, d := range t.Got() {
				if !srcPorts[d.Raw.Port()] {
					fresh = true
				}
			}
		}
		if !fresh {
			violate("session_not_restarted", "after eviction the next packets did not come from new upstream sockets")
			return
		}
		rec.Count("evictions_observed", int64(want))
		finish()
	case "stop-idle":
		finish()
	case "stop-established":
		if !newPeers(s.NSess) || !roundTrip("est") {
			return
		}
		finish()
	case "stop-queued", "failed-start-queued":
		if !newPeers(s.NSess) || !roundTrip("warm") {
			return
		}
		// fire bursts without waiting, then stop immediately: packets are queued / in flight while Stop runs
		for q := 0; q < s.Queued; q++ {
			for k, p := range peers {
				p.Send(tgt(k, false), []byte("burst"))
			}
		}
		finish()
	case "stop-double":
		if !newPeers(min(s.NSess, 4)) || !roundTrip("d") {
			return
		}
		vtime.Advance(nat + time.Second) // timeouts fire right before the stop
		finish()
	case "stop-init-resolver", "failed-start-init-resolver":
		if !newPeers(min(s.NSess, 4)) {
			return
		}
		name := fmt.Sprintf("lc0-%d.test", ci)
		release := fakeDNS.Hold(name)
		for _, p := range peers {
			p.Send(conn.MustAddrFromDomainPort(name, uint16(w.tport)), []byte("held"))
		}
		// wait until the resolver is being asked (the initialiser / uplink is blocked in resolution)
		svx.Poll(2*time.Second, func() bool { return fakeDNS.QueryCount(name) > 0 })
		if w.failRelease != nil {
			// Run stops the relay by itself: the held resolution has to be abandoned because the run is over (its
			// context is cancelled), not because an answer arrives - the answer is withheld until Run has returned
			afterReturn = release
			finish()
			return
		}
		done := make(chan struct{})
		go func() {
			// release the resolver a little (real time) after Stop began
			vtime.RealSleep(20 * time.Millisecond)
			release()
			close(done)
		}()
		finish()
		<-done
	case "stop-hook-rearm", "stop-hook-swap", "failed-start-hook-rearm":
		hook := "udp.uplink.beforeRearm"
		if s.Phase == "stop-hook-swap" {
			hook = "udp.init.beforeSwap"
		}
		var held atomic.Int32
		gate := make(chan struct{})
		var once sync.Once
		verifhook.Set(func(name string) {
			if name == hook && held.CompareAndSwap(0, 1) {
				<-gate
			}
		})
		if !newPeers(min(s.NSess, 3)) {
			return
		}
		for k, p := range peers {
			p.Send(tgt(k, false), []byte("hook"))
		}
		hookReached = svx.Poll(15*time.Second, func() bool { return held.Load() == 1 })
		go func() {
			// let Stop run against the paused goroutine (it must have passed its session-table sweep), then resume it
			vtime.RealSleep(300 * time.Millisecond)
			once.Do(func() { close(gate) })
		}()
		finish()
		once.Do(func() { close(gate) })
		if !hookReached {
			rec.Inconclusive("hook-not-reached:" + hook)
		}
	case "evict-unsendable":
		// every datagram of these sessions fails to pack for the outbound client (the name does not resolve), so nothing is
		// ever sent upstream; the sessions must nevertheless be torn down after the NAT timeout
		if s.C != "direct" {
			// the failing pack must happen in THIS relay: only meaningful with a direct upstream
			finish()
			return
		}
		if !newPeers(min(s.NSess, 4)) {
			return
		}
		bad := conn.MustAddrFromDomainPort(fmt.Sprintf("nxdomain-%d.test", ci), uint16(w.tport))
		for _, p := range peers {
			p.Send(bad, []byte("unsendable"))
		}
		if !w.inst.WaitLogs("Failed to pack packet", len(peers), 20*time.Second) {
			rec.Inconclusive("evict-unsendable: pack failure not observed")
			finish()
			return
		}
		started := w.inst.CountLogs("relay started")
		vtime.Advance(nat + time.Second)
		if !w.inst.WaitLogs("Finished relay serverConn <- natConn", started, 30*time.Second) {
			violate("not_evicted", "%d sessions whose packets could never be sent out were started, only %d were torn down %v after their last client packet", started, w.inst.CountLogs("Finished relay serverConn <- natConn"), nat+time.Second)
			return
		}
		rec.Count("evictions_observed", int64(started))
		finish()
	case "init-reject", "init-upstream-refused":
		if !newPeers(min(s.NSess, 4)) {
			return
		}
		// bursts: further packets of the same client are dispatched while the failed session is being torn down
		for q := 0; q < 2+s.Queued; q++ {
			for k, p := range peers {
				p.Send(tgt(k, false), []byte("nope"))
			}
		}
		msg := "Failed to get UDP client"
		if s.Phase == "init-upstream-refused" {
			msg = "Failed to create new UDP client session"
		}
		if !w.inst.WaitLogs(msg, 1, 20*time.Second) {
			violate("init_failure_not_reported", "expected %q in the log", msg)
			return
		}
		if n := w.inst.CountLogs("relay started"); n != 0 {
			violate("unexpected_sessions", "%d sessions started although initialisation must fail", n)
			return
		}
		// a later packet is handled again (fresh attempt), nothing accumulates
		for k, p := range peers {
			p.Send(tgt(k, false), []byte("again"))
		}
		vtime.RealSleep(20 * time.Millisecond)
		finish()
	}
	_ = netip.AddrPort{}
}
