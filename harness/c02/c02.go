// Package c02 monitors "tampered, spliced or foreign SS2022 TCP traffic is
// never delivered as data": genuine sessions are recorded at the transport,
// one tamper operator is applied to one direction at one structural position,
// and the altered stream is delivered to the real endpoint bound to that
// session. The oracle is prefix-then-error over AEAD units.
package c02

import (
	"bytes"
	"context"
	"errors"
	"fmt"
	"io"
	"net/netip"
	"sync"

	"github.com/database64128/shadowsocks-go/conn"
	"github.com/database64128/shadowsocks-go/netio"
	"github.com/database64128/shadowsocks-go/ss2022"

	"verif/core"
	"verif/forge"
	"verif/netsim"
	"verif/ssx"
)

func init() {
	core.Register("C02", "tamper", runTamper)
}

var target = conn.AddrFromIPAndPort(netip.MustParseAddr("203.0.113.9"), 8443)
var fallbackAddr = conn.AddrFromIPAndPort(netip.MustParseAddr("192.0.2.80"), 80)

// unit is one AEAD-authenticated stretch of the stream (or the handshake head).
type unit struct {
	off, n int
	kind   string // head | vh | len | pay
	plain  []byte // application bytes this unit delivers once authenticated
}

type transcript struct {
	raw   []byte
	units []unit
	far   bool // long session: only the far-displacement operators are enumerated
}

func (t *transcript) plainBefore(k int) []byte {
	var out []byte
	for _, u := range t.units[:k] {
		out = append(out, u.plain...)
	}
	return out
}

// session is one recorded genuine session.
type session struct {
	cfg      *ssx.Cfg
	ui       int
	payload  []byte
	cwrites  [][]byte
	swrites  [][]byte
	c2s, s2c transcript
}

type sessParams struct {
	KeySize    int  `json:"keysize"`
	Users      int  `json:"users"`
	ReqPfx     int  `json:"req_prefix"`
	RespPfx    int  `json:"resp_prefix"`
	Seg        bool `json:"segmented_header_allowed"`
	Fallback   bool `json:"fallback"`
	Payload    int  `json:"initial_payload"`
	NC         int  `json:"client_chunks"`
	NS         int  `json:"server_chunks"`
	BigReadBuf bool `json:"big_read_buffer"`
	Long       bool `json:"long,omitempty"`
}

func mkCfg(p *sessParams, tag string) *ssx.Cfg {
	cfg := ssx.NewCfg(p.KeySize, p.Users, tag)
	cfg.UDP = false
	cfg.AllowSegmented = p.Seg
	if p.ReqPfx > 0 {
		cfg.ReqPrefix = core.Pattern(5, 0, p.ReqPfx)
	}
	if p.RespPfx > 0 {
		cfg.RespPrefix = core.Pattern(6, 0, p.RespPfx)
	}
	if p.Fallback {
		cfg.Fallback = fallbackAddr
	}
	return cfg
}

// record runs one genuine session and records both directions with their unit structure.
// The client conn is returned un-read (the response is stolen from the transport) so that a
// tampered response can be delivered to the very client that made the request.
func record(r *core.RNG, p *sessParams, cfg *ssx.Cfg, tagC, tagS uint64) (*session, netio.Conn, *netsim.BufConn, error) {
	s := &session{cfg: cfg}
	// chunk sizes are a function of the session parameters only, so that structural positions carry
	// over between recordings of the same session shape
	sz := core.NewRNG(int64(p.Payload*131+p.NC*17+p.NS), "c02.sizes", p.KeySize)
	if p.Users > 0 {
		s.ui = r.Intn(p.Users)
	}
	s.payload = core.Pattern(tagC, 0, p.Payload)
	off := p.Payload
	for k := 0; k < p.NC; k++ {
		n := sz.Range(1, 64)
		s.cwrites = append(s.cwrites, core.Pattern(tagC, off, n))
		off += n
	}
	off = 0
	for k := 0; k < p.NS; k++ {
		n := sz.Range(1, 64)
		s.swrites = append(s.swrites, core.Pattern(tagS, off, n))
		off += n
	}
	srv := cfg.StreamServer()
	in := &ssx.Inner{Record: true}
	var (
		wg     sync.WaitGroup
		sEnd   *netsim.BufConn
		srvErr error
		gotC2S []byte
	)
	in.OnAccept = func(se *netsim.BufConn) {
		sEnd = se
		wg.Add(1)
		go func() {
			defer wg.Done()
			req, err := srv.HandleStream(se, ssx.Nop)
			if err != nil {
				srvErr = err
				return
			}
			gotC2S = append(gotC2S, req.Payload...)
			sc, _ := req.Proceed()
			for _, w := range s.swrites {
				if _, err := sc.Write(w); err != nil {
					srvErr = err
					return
				}
			}
			sc.CloseWrite()
			b, err := io.ReadAll(sc)
			gotC2S = append(gotC2S, b...)
			if err != nil {
				srvErr = err
			}
		}()
	}
	cl := cfg.StreamClient(s.ui, in, p.Seg)
	cc, err := cl.DialStream(context.Background(), target, s.payload)
	if err != nil {
		return nil, nil, nil, err
	}
	for _, w := range s.cwrites {
		if _, err := cc.Write(w); err != nil {
			return nil, nil, nil, err
		}
	}
	cc.CloseWrite()
	wg.Wait()
	if srvErr != nil {
		return nil, nil, nil, fmt.Errorf("genuine session failed at the server: %w", srvErr)
	}
	cEnd := in.Clients[0]
	// ---- structure of c2s from the client's transport writes ----
	raw := cEnd.Sent()
	wl := cEnd.Writes()
	eih := 0
	if p.Users > 0 {
		eih = 16
	}
	head := p.ReqPfx + p.KeySize + eih + 11 + 16
	if len(wl) == 0 || wl[0] <= head {
		return nil, nil, nil, fmt.Errorf("unexpected client write structure %v", wl)
	}
	s.c2s.raw = raw
	s.c2s.units = append(s.c2s.units, unit{0, head, "head", nil}, unit{head, wl[0] - head, "vh", s.payload})
	o := wl[0]
	for k, w := range wl[1:] {
		if w < 18+16+1 || k >= len(s.cwrites) {
			return nil, nil, nil, fmt.Errorf("unexpected client chunk write %d (%v)", w, wl)
		}
		s.c2s.units = append(s.c2s.units, unit{o, 18, "len", nil}, unit{o + 18, w - 18, "pay", s.cwrites[k]})
		o += w
	}
	if o != len(raw) {
		return nil, nil, nil, fmt.Errorf("client transcript length mismatch")
	}
	// ---- structure of s2c ----
	sraw := sEnd.Sent()
	swl := sEnd.Writes()
	s.s2c.raw = sraw
	if len(swl) > 0 {
		rhead := p.RespPfx + p.KeySize + 1 + 8 + p.KeySize + 2 + 16
		if swl[0] <= rhead {
			return nil, nil, nil, fmt.Errorf("unexpected server first write %v", swl)
		}
		s.s2c.units = append(s.s2c.units, unit{0, rhead, "head", nil}, unit{rhead, swl[0] - rhead, "pay", s.swrites[0]})
		o = swl[0]
		for k, w := range swl[1:] {
			s.s2c.units = append(s.s2c.units, unit{o, 18, "len", nil}, unit{o + 18, w - 18, "pay", s.swrites[k+1]})
			o += w
		}
		if o != len(sraw) {
			return nil, nil, nil, fmt.Errorf("server transcript length mismatch")
		}
	}
	want := append(append([]byte{}, s.payload...), bytes.Join(s.cwrites, nil)...)
	if !bytes.Equal(gotC2S, want) {
		return nil, nil, nil, fmt.Errorf("genuine session delivered wrong bytes")
	}
	return s, cc, cEnd, nil
}

// tamperOp is one alteration of a recorded direction.
type tamperOp struct {
	Name string `json:"op"`
	Pos  int    `json:"pos"`
	Arg  int    `json:"arg,omitempty"`
}

// enumerate all operators for a transcript; other is a second transcript for splicing (may be nil).
func enumerate(r *core.RNG, t *transcript, other *transcript, otherName string, samplePayload int) (ops []tamperOp, build func(op tamperOp) []byte) {
	raw := t.raw
	if t.far {
		return enumerateFar(t)
	}
	for _, u := range t.units {
		step := 1
		if u.kind == "pay" || u.kind == "vh" {
			// sampled payload bytes, but every byte of the tag
			for k := 0; k < samplePayload && u.n > 16; k++ {
				ops = append(ops, tamperOp{"flip", u.off + r.Intn(u.n-16), r.Intn(8)})
			}
			for i := u.off + u.n - 16; i < u.off+u.n; i++ {
				ops = append(ops, tamperOp{"flip", i, r.Intn(8)})
			}
			continue
		}
		if u.n > 4096 {
			step = u.n / 512 // giant prefix: sample
		}
		for i := u.off; i < u.off+u.n; i += step {
			ops = append(ops, tamperOp{"flip", i, r.Intn(8)})
		}
	}
	cutStep := 1
	if len(raw) > 8192 {
		cutStep = len(raw) / 1024
	}
	for i := 0; i < len(raw); i += cutStep {
		ops = append(ops, tamperOp{"cut", i, 0})
	}
	for _, u := range t.units {
		ops = append(ops, tamperOp{"cut", u.off, 0})
	}
	for k := range t.units {
		ops = append(ops, tamperOp{"drop", k, 0}, tamperOp{"dup", k, 0})
		if k+1 < len(t.units) {
			ops = append(ops, tamperOp{"swap", k, 0})
		}
		if k+2 < len(t.units) && t.units[k].kind == "len" {
			ops = append(ops, tamperOp{"drop-chunk", k, 0}, tamperOp{"dup-chunk", k, 0})
			if k+3 < len(t.units) {
				ops = append(ops, tamperOp{"swap-chunk", k, 0})
			}
		}
		if other != nil && k < len(other.units) {
			ops = append(ops, tamperOp{"splice-" + otherName, k, 0})
			ops = append(ops, tamperOp{"substitute-" + otherName, k, 0})
		}
	}
	ub := func(k int) []byte { u := t.units[k]; return raw[u.off : u.off+u.n] }
	build = func(op tamperOp) []byte {
		switch op.Name {
		case "flip":
			b := append([]byte{}, raw...)
			b[op.Pos] ^= 1 << uint(op.Arg)
			return b
		case "cut":
			return append([]byte{}, raw[:op.Pos]...)
		}
		var out []byte
		k := op.Pos
		for i := 0; i < len(t.units); i++ {
			switch {
			case op.Name == "drop" && i == k:
			case op.Name == "dup" && i == k:
				out = append(out, ub(i)...)
				out = append(out, ub(i)...)
			case op.Name == "swap" && i == k:
				out = append(out, ub(i+1)...)
				out = append(out, ub(i)...)
				i++
			case op.Name == "drop-chunk" && i == k:
				i++
			case op.Name == "dup-chunk" && i == k:
				out = append(out, ub(i)...)
				out = append(out, ub(i+1)...)
				out = append(out, ub(i)...)
				out = append(out, ub(i+1)...)
				i++
			case op.Name == "swap-chunk" && i == k:
				out = append(out, ub(i+2)...)
				out = append(out, ub(i+3)...)
				out = append(out, ub(i)...)
				out = append(out, ub(i+1)...)
				i += 3
			case len(op.Name) > 7 && op.Name[:7] == "splice-" && i == k:
				// continue with the other session's units from the same index to its end
				ou := other.units[k]
				out = append(out, other.raw[ou.off:]...)
				return out
			case len(op.Name) > 11 && op.Name[:11] == "substitute-" && i == k:
				// only this unit comes from the other session
				ou := other.units[k]
				out = append(out, other.raw[ou.off:ou.off+ou.n]...)
			default:
				out = append(out, ub(i)...)
			}
		}
		return out
	}
	return
}

// enumerateFar: whole chunks displaced by a distance at which a nonce counter that loses a carry repeats itself
// (each chunk advances the counter twice: 128 chunks = byte 0 wraps, 32768 chunks = byte 1 wraps): swap chunk k with
// chunk k+d, drop a run of d chunks, duplicate a run of d chunks.
func enumerateFar(t *transcript) (ops []tamperOp, build func(op tamperOp) []byte) {
	raw := t.raw
	var lens []int // indexes of the length units of data chunks
	for k, u := range t.units {
		if u.kind == "len" && k+1 < len(t.units) {
			lens = append(lens, k)
		}
	}
	for _, d := range []int{64, 127, 128, 129, 256, 32768} {
		for _, ci := range []int{0, 1, 5} {
			if ci+d < len(lens) {
				ops = append(ops, tamperOp{"swap-far", lens[ci], d}, tamperOp{"drop-run", lens[ci], d}, tamperOp{"dup-run", lens[ci], d})
			}
		}
	}
	ub := func(a, b int) []byte { return raw[t.units[a].off : t.units[b-1].off+t.units[b-1].n] } // units [a,b)
	build = func(op tamperOp) []byte {
		k, d := op.Pos, op.Arg
		end := len(t.units)
		var out []byte
		out = append(out, ub(0, k)...)
		switch op.Name {
		case "swap-far":
			j := k + 2*d
			out = append(out, ub(j, j+2)...)
			out = append(out, ub(k+2, j)...)
			out = append(out, ub(k, k+2)...)
			if j+2 < end {
				out = append(out, ub(j+2, end)...)
			}
		case "drop-run":
			if k+2*d < end {
				out = append(out, ub(k+2*d, end)...)
			}
		case "dup-run":
			out = append(out, ub(k, k+2*d)...)
			out = append(out, ub(k, end)...)
		}
		return out
	}
	return
}

// firstAltered returns the index of the first unit of t whose bytes are not found unchanged at
// their position in alt, whether alt ends exactly at that unit's start (pure truncation at a
// boundary), and whether alt is byte-identical to the genuine stream.
func firstAltered(t *transcript, alt []byte) (k int, atBoundary bool, identical bool) {
	for i, u := range t.units {
		if len(alt) < u.off+u.n || !bytes.Equal(alt[u.off:u.off+u.n], t.raw[u.off:u.off+u.n]) {
			return i, len(alt) == u.off, false
		}
	}
	return len(t.units), len(alt) == len(t.raw), len(alt) == len(t.raw)
}

type readResult struct {
	data []byte
	err  error  // nil = clean EOF
	late []byte // bytes handed out by reads made after the stream had already ended (error or EOF)
}

// lateReads keeps reading after the stream has ended, as a relay's second copy direction or a caller that retries
// does: a stream that has failed or ended must hand out nothing more, whatever buffer size or copy path is used.
func lateReads(c io.Reader) (late []byte) {
	for _, size := range []int{32, 70000, 1} {
		b := make([]byte, size)
		n, _ := c.Read(b)
		late = append(late, b[:n]...)
	}
	if wt, ok := c.(io.WriterTo); ok {
		w := &netsim.RecWriter{}
		wt.WriteTo(w)
		late = append(late, w.Data...)
	}
	return late
}

func drain(c io.Reader, big bool, useWriteTo bool) readResult {
	var rr readResult
	if useWriteTo {
		if wt, ok := c.(io.WriterTo); ok {
			w := &netsim.RecWriter{}
			_, err := wt.WriteTo(w)
			rr.data = w.Data
			rr.err = err
			rr.late = lateReads(c)
			return rr
		}
	}
	size := 32
	if big {
		size = 70000
	}
	for {
		b := make([]byte, size)
		n, err := c.Read(b)
		rr.data = append(rr.data, b[:n]...)
		if err != nil {
			if err != io.EOF {
				rr.err = err
			}
			rr.late = lateReads(c)
			return rr
		}
	}
}

func runTamper(e *core.Env) {
	rec := e.Rec
	rec.Rule("tamper: one session = (key size, users, prefixes, segmented flag, fallback on/off, payload/chunk sizes 0..64); every operator (flip at every byte of head/length units + every tag byte + sampled payload bytes; cut at every offset; drop/dup/swap of every unit and chunk; splice/substitute with a same-key and a different-key session; response swap; foreign-key handshake; replayed handshake) is applied to the recorded c2s stream (delivered to a fresh real server) and to the s2c stream (delivered to the real client that made the request); evaluations = trials; class = (direction, operator, kind of first altered unit, fallback, outcome)")
	nSess := e.N(40, 1200)
	core.Parallel(e, "tamper", nSess, 16, func(i int) {
		r := core.NewRNG(e.Seed, "c02.tamper", i)
		p := sessParams{KeySize: r.Pick(16, 32), Users: r.Pick(0, 0, 2), ReqPfx: r.Pick(0, 0, 7), RespPfx: r.Pick(0, 0, 5), Seg: r.Bool(), Fallback: r.Chance(1, 3),
			Payload: r.Pick(0, 1, 17, 64), NC: r.Range(0, 3), NS: r.Range(1, 3), BigReadBuf: r.Bool()}
		if !e.Quick() && r.Chance(1, 60) {
			p.ReqPfx = 66000
		}
		rec.Begin("tamper", i, fmt.Sprintf("%+v", p))
		// in a synctest bubble: the recorded handshake is presented many times, and the clock its timestamp is held
		// against must not move while that takes however long a loaded machine needs
		if dead := core.Bubble(e, func() { sessionTrials(e, i, r, &p) }); dead != "" {
			rec.Inconclusive("bubble:" + dead)
		}
	})
	// long sessions: whole chunks displaced by 64..256 chunks (thorough: one pair of sessions with 33000 chunks, 32768)
	nLong := e.N(4, 16)
	core.Parallel(e, "tamper", nLong, 4, func(j int) {
		i := nSess + j
		r := core.NewRNG(e.Seed, "c02.long", j)
		n := r.Pick(140, 300)
		if !e.Quick() && j < 2 {
			n = 33000
		}
		p := sessParams{KeySize: []int{16, 32}[j%2], Users: r.Pick(0, 2), Seg: r.Bool(), Payload: r.Pick(0, 17), NC: n, NS: n, BigReadBuf: r.Bool(), Long: true}
		rec.Begin("tamper", i, fmt.Sprintf("%+v", p))
		// in a synctest bubble: the recorded handshake is presented many times, and the clock its timestamp is held
		// against must not move while that takes however long a loaded machine needs
		if dead := core.Bubble(e, func() { sessionTrials(e, i, r, &p) }); dead != "" {
			rec.Inconclusive("bubble:" + dead)
		}
	})
}

func sessionTrials(e *core.Env, ci int, r *core.RNG, p *sessParams) {
	rec := e.Rec
	tag := fmt.Sprintf("c02/%d", ci%3)
	cfg := mkCfg(p, tag)
	const tagC, tagS = 0xC0, 0x50
	base, cc0, _, err := record(r, p, cfg, tagC, tagS)
	if err != nil {
		rec.Violate("tamper", ci, core.Sig("kind", "genuine_session_failed", "part", "tamper"), p, "recording a genuine session failed: %v", err)
		return
	}
	cc0.Close()
	// second session under the same keys, and one under different keys (different user key / PSK)
	same, c1, _, err1 := record(r, p, cfg, tagC+1, tagS+1)
	otherCfg := mkCfg(p, tag+"/foreign")
	foreign, c2, _, err2 := record(r, p, otherCfg, tagC+2, tagS+2)
	if err1 != nil || err2 != nil {
		rec.Violate("tamper", ci, core.Sig("kind", "genuine_session_failed", "part", "tamper"), p, "recording auxiliary sessions failed: %v %v", err1, err2)
		return
	}
	c1.Close()
	c2.Close()
	if p.Long {
		base.c2s.far, base.s2c.far = true, true
	}
	trials := 0
	viol := func(dir string, op tamperOp, kind string, format string, a ...any) {
		rec.Violate("tamper", ci, core.Sig("kind", kind, "part", "tamper", "dir", dir, "op", op.Name), map[string]any{"session": p, "op": op}, format, a...)
	}

	// ---------- client -> server direction ----------
	c2sTrial := func(op tamperOp, alt []byte, t *transcript) {
		trials++
		k, atBoundary, identical := firstAltered(t, alt)
		srv := cfg.StreamServer()
		a, b := netsim.Pair(nil, nil, false)
		a.Write(alt)
		a.CloseWrite()
		req, err := srv.HandleStream(b, ssx.Nop)
		var delivered []byte
		var rerr error
		var late []byte
		status := "rejected"
		if err == nil {
			if req.Addr.Equals(fallbackAddr) && p.Fallback {
				status = "fallback"
				rest, _ := io.ReadAll(b)
				got := append(append([]byte{}, req.Payload...), rest...)
				if k >= 2 || identical {
					viol("c2s", op, "genuine_prefix_refused", "server fell back although the whole handshake was intact (first altered unit %d)", k)
				}
				if req.Username != "" {
					viol("c2s", op, "fallback_with_user", "fallback request carries username %q", req.Username)
				}
				if !bytes.Equal(got, alt) {
					viol("c2s", op, "fallback_bytes_modified", "fallback received %d bytes that differ from the %d bytes the attacker sent (first difference at %d)", len(got), len(alt), core.FirstDiff(got, alt))
				}
			} else {
				status = "accepted"
				delivered = append(delivered, req.Payload...)
				sc, _ := req.Proceed()
				rr := drain(sc, p.BigReadBuf, r.Chance(1, 4))
				delivered = append(delivered, rr.data...)
				rerr = rr.err
				late = rr.late
				if !req.Addr.Equals(target) {
					viol("c2s", op, "wrong_target", "server accepted target %s from an altered stream", req.Addr)
				}
			}
		}
		a.Close()
		b.Close()
		kind := "end"
		if k < len(t.units) {
			kind = t.units[k].kind
		}
		switch {
		case status == "fallback":
		case k <= 1 && !identical: // handshake altered (head or variable-length header)
			if status == "accepted" {
				viol("c2s", op, "altered_handshake_accepted", "server produced a connection request from an altered handshake (first altered unit %d %s)", k, kind)
			}
		default:
			if status != "accepted" {
				viol("c2s", op, "genuine_prefix_refused", "server refused a stream whose handshake is intact: %v", err)
				break
			}
			want := t.plainBefore(k)
			if all := append(append([]byte{}, delivered...), late...); len(late) > 0 && !bytes.HasPrefix(t.plainBefore(len(t.units)), all) {
				viol("c2s", op, "bytes_after_failed_read_not_genuine", "after the server's read had failed (%v) further reads handed out %d more bytes, and what was returned in total is not a prefix of what the client sent (first difference at %d): %s", rerr, len(late), core.FirstDiff(all, t.plainBefore(len(t.units))), core.Hex(late, 32))
			}
			if !bytes.Equal(delivered, want) {
				viol("c2s", op, "delivered_not_prefix", "server returned %d bytes, want exactly the %d bytes of the %d units before the alteration (first difference at %d)", len(delivered), len(want), k, core.FirstDiff(delivered, want))
			} else if !identical && rerr == nil {
				// clean EOF is acceptable only for pure truncation at a unit boundary or right after a length unit
				afterLen := k > 0 && t.units[k-1].kind == "len" && atBoundary
				if !(atBoundary || afterLen) {
					viol("c2s", op, "alteration_reported_as_eof", "read touching altered data at unit %d (%s) ended with a clean EOF", k, kind)
				}
			}
		}
		rec.Class("c2s/%s/first=%s/fallback=%v/%s", op.Name, kind, p.Fallback, status)
	}
	ops, build := enumerate(r, &base.c2s, &same.c2s, "samekey", 3)
	for _, op := range ops {
		if op.Name == "splice-samekey" && op.Pos == 0 {
			continue // that is simply another genuine session of the same user
		}
		c2sTrial(op, build(op), &base.c2s)
	}
	ops2, build2 := enumerate(r, &base.c2s, &foreign.c2s, "otherkey", 0)
	for _, op := range ops2 {
		if len(op.Name) > 6 && (op.Name[:6] == "splice" || op.Name[:6] == "substi") {
			c2sTrial(op, build2(op), &base.c2s)
		}
	}
	// whole handshake under a key the server does not hold
	c2sTrial(tamperOp{Name: "foreign-key-session"}, foreign.c2s.raw, &base.c2s)
	// untouched stream (control): must be accepted completely
	c2sTrial(tamperOp{Name: "identity"}, base.c2s.raw, &base.c2s)
	// replayed genuine handshake on the same server object
	{
		trials++
		srv := cfg.StreamServer()
		okCount := 0
		for k := 0; k < 2; k++ {
			a, b := netsim.Pair(nil, nil, false)
			a.Write(base.c2s.raw)
			a.CloseWrite()
			req, err := srv.HandleStream(b, ssx.Nop)
			if err == nil && !req.Addr.Equals(fallbackAddr) {
				okCount++
			}
			a.Close()
			b.Close()
		}
		if okCount != 1 {
			viol("c2s", tamperOp{Name: "replay"}, "replay_accepted", "replayed handshake accepted %d times", okCount)
		}
		rec.Class("c2s/replay/accepted=%d", okCount)
	}

	// ---------- server -> client direction ----------
	// every trial needs its own genuine request (the response is bound to the request salt), so the
	// operator list is computed on a fresh recording each time; positions are structural and carry over.
	s2cOps, _ := enumerate(r, &base.s2c, &same.s2c, "samekey", 2)
	s2cOps = append(s2cOps, tamperOp{Name: "response-swap"}, tamperOp{Name: "response-foreign-key"}, tamperOp{Name: "identity"})
	for _, op := range s2cOps {
		trials++
		sess, cc, cEnd, err := record(r, p, cfg, tagC+3, tagS+3)
		if err != nil {
			rec.Violate("tamper", ci, core.Sig("kind", "genuine_session_failed", "part", "tamper"), p, "recording failed: %v", err)
			return
		}
		g := cEnd.Steal()
		if !bytes.Equal(g, sess.s2c.raw) {
			core.Fatalf("stolen response differs from the recorded one")
		}
		t := &sess.s2c
		var alt []byte
		switch op.Name {
		case "response-swap":
			alt = same.s2c.raw // a genuine response, same keys, bound to another request
		case "response-foreign-key":
			alt = foreign.s2c.raw
		case "identity":
			alt = t.raw
		default:
			if op.Name == "flip" || op.Name == "cut" {
				if op.Pos >= len(t.raw) {
					cc.Close()
					continue
				}
			} else if op.Pos >= len(t.units) {
				cc.Close()
				continue
			}
			_, b2 := enumerate(core.NewRNG(1, "x", 0), t, &same.s2c, "samekey", 0)
			alt = func() (out []byte) {
				defer func() {
					if recover() != nil {
						out = nil
					}
				}()
				return b2(op)
			}()
			if alt == nil {
				cc.Close()
				continue
			}
		}
		k, atBoundary, identical := firstAltered(t, alt)
		// deliver to the client that made the request
		peer := peerOf(cEnd)
		cEnd.Reopen()
		peer.Write(alt)
		peer.CloseWrite()
		rr := drain(cc, p.BigReadBuf, r.Chance(1, 4))
		cc.Close()
		kind := "end"
		if k < len(t.units) {
			kind = t.units[k].kind
		}
		want := t.plainBefore(k)
		outcome := "error"
		if rr.err == nil {
			outcome = "eof"
		}
		if all := append(append([]byte{}, rr.data...), rr.late...); len(rr.late) > 0 && !bytes.HasPrefix(t.plainBefore(len(t.units)), all) {
			viol("s2c", op, "bytes_after_failed_read_not_genuine", "after the client's read had failed (%v) further reads handed out %d more bytes, and what was returned in total is not a prefix of what the server sent (first difference at %d): %s", rr.err, len(rr.late), core.FirstDiff(all, t.plainBefore(len(t.units))), core.Hex(rr.late, 32))
		}
		if !bytes.Equal(rr.data, want) {
			viol("s2c", op, "delivered_not_prefix", "client returned %d bytes, want exactly the %d bytes of the %d units before the alteration (first difference at %d; first altered unit %s)", len(rr.data), len(want), k, core.FirstDiff(rr.data, want), kind)
		} else if !identical && rr.err == nil {
			afterLen := k > 0 && t.units[k-1].kind == "len" && atBoundary
			if !(atBoundary || afterLen) {
				viol("s2c", op, "alteration_reported_as_eof", "client read touching altered data at unit %d (%s) ended with a clean EOF", k, kind)
			}
		} else if identical && rr.err != nil && !errors.Is(rr.err, io.EOF) {
			viol("s2c", op, "genuine_response_refused", "client failed on an untouched response: %v", rr.err)
		}
		rec.Class("s2c/%s/first=%s/%s", op.Name, kind, outcome)
	}
	rec.EvalN(trials)
	rec.Count("sessions_recorded", 1)
	rec.Count("tamper_trials", int64(trials))
	if ci%10 == 0 {
		rec.Sample(6, map[string]any{"session": p, "c2s_units": unitKinds(&base.c2s), "s2c_units": unitKinds(&base.s2c), "trials": trials, "example_op": ops[len(ops)/2]})
	}
	_ = ss2022.ErrRepeatedSalt
	_ = forge.Key
}

func unitKinds(t *transcript) []string {
	var s []string
	for _, u := range t.units {
		s = append(s, fmt.Sprintf("%s:%d", u.kind, u.n))
	}
	return s
}

func peerOf(c *netsim.BufConn) *netsim.BufConn { return c.Peer() }
