package c20

import (
	"context"
	"encoding/binary"
	"fmt"
	"os"
	"path/filepath"
	"sync"
	"sync/atomic"
	"syscall"
	"time"

	"github.com/database64128/shadowsocks-go/cred"
	"github.com/database64128/shadowsocks-go/ss2022"
	"go.uber.org/zap"

	"verif/core"
	"verif/forge"
)

// Two more observers of "at every instant the store file is a complete document holding the previous or the new set":
//
// instants - the kernel's own log of what happens to the store's directory entry (inotify) while the real manager
// saves: the only thing that may ever happen to the store's name is that a complete file is moved onto it. A delete or
// move-away of the name (the store does not exist for a while) or a write to the file behind the name (it is being
// rewritten in place) is an instant at which a crash loses the store - no crash needs to be injected to see it. A
// second goroutine keeps loading the store the way a restarting server would.
//
// diskfull - a real full disk (a small tmpfs): ENOSPC instead of the EFBIG the crash-point part injects, with stores
// whose next document needs more blocks than the old one would free.

func init() {
	core.Register("C20", "instants", runInstants)
	core.Register("C20", "diskfull", runDiskFull)
}

type inoEvent struct {
	Mask uint32
	Name string
}

func maskNames(m uint32) string {
	s := ""
	for _, x := range []struct {
		b uint32
		n string
	}{{syscall.IN_CREATE, "CREATE"}, {syscall.IN_DELETE, "DELETE"}, {syscall.IN_MOVED_FROM, "MOVED_FROM"}, {syscall.IN_MOVED_TO, "MOVED_TO"},
		{syscall.IN_MODIFY, "MODIFY"}, {syscall.IN_CLOSE_WRITE, "CLOSE_WRITE"}, {syscall.IN_ATTRIB, "ATTRIB"}} {
		if m&x.b != 0 {
			s += x.n + "|"
		}
	}
	return s
}

// watchDir starts an inotify watch and returns a function that stops it and returns the events in kernel order.
func watchDir(dir string) (stop func() []inoEvent, err error) {
	fd, err := syscall.InotifyInit1(syscall.IN_CLOEXEC | syscall.IN_NONBLOCK)
	if err != nil {
		return nil, err
	}
	if _, err := syscall.InotifyAddWatch(fd, dir, syscall.IN_CREATE|syscall.IN_DELETE|syscall.IN_MOVED_FROM|syscall.IN_MOVED_TO|syscall.IN_MODIFY|syscall.IN_CLOSE_WRITE|syscall.IN_ATTRIB); err != nil {
		syscall.Close(fd)
		return nil, err
	}
	drain := func(evs []inoEvent) []inoEvent {
		buf := make([]byte, 64*1024)
		for {
			n, err := syscall.Read(fd, buf)
			if n <= 0 || err != nil {
				return evs
			}
			for off := 0; off+syscall.SizeofInotifyEvent <= n; {
				mask := binary.LittleEndian.Uint32(buf[off+4:])
				nl := int(binary.LittleEndian.Uint32(buf[off+12:]))
				name := buf[off+syscall.SizeofInotifyEvent : off+syscall.SizeofInotifyEvent+nl]
				for len(name) > 0 && name[len(name)-1] == 0 {
					name = name[:len(name)-1]
				}
				evs = append(evs, inoEvent{mask, string(name)})
				off += syscall.SizeofInotifyEvent + nl
			}
		}
	}
	var mu sync.Mutex
	var evs []inoEvent
	done := make(chan struct{})
	fin := make(chan struct{})
	go func() {
		defer close(fin)
		for {
			mu.Lock()
			evs = drain(evs)
			mu.Unlock()
			select {
			case <-done:
				mu.Lock()
				evs = drain(evs)
				mu.Unlock()
				return
			case <-time.After(200 * time.Microsecond):
			}
		}
	}()
	return func() []inoEvent {
		close(done)
		<-fin
		syscall.Close(fd)
		return evs
	}, nil
}

func runInstants(e *core.Env) {
	rec := e.Rec
	rec.Rule("instants: one case = a store of 0..40 users and 3..10 successive saves (add / delete / update through the manager, saved at shutdown and by the debounce); observed: every inotify event on the store's directory (kernel order) and every result of a goroutine that keeps loading the store like a restarting server; allowed on the store's name: MOVED_TO only; class = (users, saves, events seen on the store's name, polls)")
	n := e.N(24, 600)
	core.Parallel(e, "instants", n, 8, func(i int) {
		r := core.NewRNG(e.Seed, "c20.instants", i)
		rec.Begin("instants", i, "")
		rec.Eval()
		dir := filepath.Join(e.WorkDir, fmt.Sprintf("inst-%d", i))
		os.MkdirAll(dir, 0o755)
		defer os.RemoveAll(dir)
		path := filepath.Join(dir, "upsks.json")
		users := initialUsers(r.Pick(0, 1, 3, 40))
		os.WriteFile(path, marshalStore(users), 0o644)
		stop, err := watchDir(dir)
		if err != nil {
			rec.Inconclusive("inotify: " + err.Error())
			return
		}
		// the sets the store may legitimately hold at any instant: every acknowledged state so far
		var okMu sync.Mutex
		okSets := map[string]bool{canon(users): true}
		var polls, badPolls atomic.Int64
		var firstBad atomic.Value
		pollDone := make(chan struct{})
		var pwg sync.WaitGroup
		pwg.Add(1)
		go func() {
			defer pwg.Done()
			for {
				select {
				case <-pollDone:
					return
				default:
				}
				got, err := loadWithFreshManager(path)
				polls.Add(1)
				okMu.Lock()
				legit := err == nil && okSets[canon(got)]
				okMu.Unlock()
				if !legit {
					badPolls.Add(1)
					if err != nil {
						firstBad.CompareAndSwap(nil, "load failed: "+err.Error())
					} else {
						firstBad.CompareAndSwap(nil, "loaded a set that was never acknowledged: "+keys(got))
					}
				}
			}
		}()
		saves := r.Range(3, 10)
		cur := users
		for k := 0; k < saves; k++ {
			mgr := cred.NewManager(zap.NewNop())
			var store ss2022.CredStore
			ms, err := mgr.RegisterServer("srv", path, keySize, &store, nil)
			if err != nil {
				close(pollDone)
				pwg.Wait()
				stop()
				rec.Violate("instants", i, core.Sig("kind", "store_unloadable_between_saves", "part", "instants"), err.Error(), "case %d: the store does not load before save %d: %v", i, k, err)
				return
			}
			ctx, cancel := context.WithCancel(context.Background())
			mgr.Start(ctx)
			next := map[string][]byte{}
			for u, v := range cur {
				next[u] = v
			}
			name := fmt.Sprintf("n%d-%d", i, k)
			switch op := r.PickStr("add", "add", "delete", "update"); {
			case op == "delete" && len(cur) > 0:
				for u := range cur {
					name = u
					break
				}
				err = ms.DeleteCredential(name)
				delete(next, name)
			case op == "update" && len(cur) > 0:
				for u := range cur {
					name = u
					break
				}
				key := forge.Key(keySize, fmt.Sprintf("c20/inst/%d/%d/rot", i, k))
				err = ms.UpdateCredential(name, key)
				next[name] = key
			default:
				key := forge.Key(keySize, fmt.Sprintf("c20/inst/%d/%d", i, k))
				err = ms.AddCredential(name, key)
				next[name] = key
			}
			if err != nil {
				core.Fatalf("c20 instants: operation failed: %v", err)
			}
			okMu.Lock()
			okSets[canon(next)] = true
			okMu.Unlock()
			cancel()
			mgr.Stop() // the save runs here
			cur = next
		}
		close(pollDone)
		pwg.Wait()
		evs := stop()
		final, err := loadWithFreshManager(path)
		if err != nil || canon(final) != canon(cur) {
			rec.Violate("instants", i, core.Sig("kind", "acknowledged_change_not_saved", "part", "instants"), nil, "case %d: after %d saves the store holds %s (err %v), acknowledged %s", i, saves, keys(final), err, keys(cur))
			return
		}
		base := filepath.Base(path)
		onStore := map[string]int{}
		var trail []string
		for _, ev := range evs {
			if len(trail) < 60 {
				trail = append(trail, maskNames(ev.Mask)+ev.Name)
			}
			if ev.Name != base {
				continue
			}
			onStore[maskNames(ev.Mask)]++
			if ev.Mask&(syscall.IN_DELETE|syscall.IN_MOVED_FROM) != 0 {
				rec.Violate("instants", i, core.Sig("kind", "store_name_removed_during_save", "part", "instants"), trail, "case %d: during a save the store's directory entry was removed (%s): for a while no store exists, a crash there loses every user", i, maskNames(ev.Mask))
				return
			}
			if ev.Mask&(syscall.IN_MODIFY|syscall.IN_CLOSE_WRITE) != 0 {
				rec.Violate("instants", i, core.Sig("kind", "store_rewritten_in_place", "part", "instants"), trail, "case %d: during a save the store file itself was written to (%s): it is incomplete until the write ends", i, maskNames(ev.Mask))
				return
			}
		}
		if badPolls.Load() > 0 {
			rec.Violate("instants", i, core.Sig("kind", "store_unloadable_at_some_instant", "part", "instants"), map[string]any{"first": firstBad.Load(), "events": trail}, "case %d: %d of %d loads made while saves ran failed or saw an unacknowledged set (%v)", i, badPolls.Load(), polls.Load(), firstBad.Load())
			return
		}
		if onStore["MOVED_TO|"] < saves {
			rec.Inconclusive("inotify saw fewer replacements than saves")
			return
		}
		rec.Count("instants_saves", int64(saves))
		rec.Count("instants_inotify_events", int64(len(evs)))
		rec.Count("instants_concurrent_loads", polls.Load())
		rec.Class("users=%d/saves=%d/store-events=%v", len(users), saves, fmt.Sprint(onStore))
	})
}

func runDiskFull(e *core.Env) {
	rec := e.Rec
	rec.Rule("diskfull: one case = a store of n users on a tmpfs of 512 KiB that is then filled to the last byte; 10 users are added through the manager and the service stops (the save meets ENOSPC); the store is reloaded like a restarting server: it must load and hold the old or the new set, and the running manager must keep the new set; n sweeps 0..280 in steps of 7 (block-boundary growth); class = (n, save outcome)")
	mnt := filepath.Join(e.WorkDir, "full")
	os.MkdirAll(mnt, 0o755)
	if err := syscall.Mount("tmpfs", mnt, "tmpfs", 0, "size=512k"); err != nil {
		// not a verdict: the sandbox may not allow mounting; the crash-point part still covers write errors
		rec.Note("diskfull: mounting a tmpfs is not permitted here (%v): part skipped", err)
		rec.Begin("diskfull", 0, "skipped")
		rec.Eval()
		rec.Class("diskfull/skipped-no-mount")
		rec.Class("diskfull/skipped")
		return
	}
	defer syscall.Unmount(mnt, syscall.MNT_DETACH)
	step := e.N(7, 7)
	for ci, n := 0, 0; n <= 280; ci, n = ci+1, n+step {
		if e.Only >= 0 && e.Only != ci {
			continue
		}
		rec.Begin("diskfull", ci, fmt.Sprintf("users=%d", n))
		rec.Eval()
		func() {
			path := filepath.Join(mnt, "upsks.json")
			filler := filepath.Join(mnt, "filler")
			defer os.Remove(path)
			defer os.Remove(filler)
			old := initialUsers(n)
			if err := os.WriteFile(path, marshalStore(old), 0o644); err != nil {
				rec.Inconclusive("diskfull: initial store: " + err.Error())
				return
			}
			mgr := cred.NewManager(zap.NewNop())
			var store ss2022.CredStore
			ms, err := mgr.RegisterServer("srv", path, keySize, &store, nil)
			if err != nil {
				rec.Inconclusive("diskfull: register: " + err.Error())
				return
			}
			// fill the file system to the last byte
			f, err := os.Create(filler)
			if err != nil {
				rec.Inconclusive("diskfull: filler: " + err.Error())
				return
			}
			chunk := make([]byte, 4096)
			for sz := 4096; sz >= 1; {
				if _, err := f.Write(chunk[:sz]); err != nil {
					sz /= 2
				}
			}
			f.Close()
			ctx, cancel := context.WithCancel(context.Background())
			mgr.Start(ctx)
			next := map[string][]byte{}
			for u, v := range old {
				next[u] = v
			}
			for k := 0; k < 10; k++ {
				name, key := fmt.Sprintf("zz-full-%d", k), forge.Key(keySize, fmt.Sprintf("c20/full/%d/%d", n, k))
				if err := ms.AddCredential(name, key); err != nil {
					core.Fatalf("c20 diskfull: add: %v", err)
				}
				next[name] = key
			}
			cancel()
			mgr.Stop()
			got, err := loadWithFreshManager(path)
			if err != nil {
				rec.Violate("diskfull", ci, core.Sig("kind", "store_destroyed_by_full_disk", "part", "diskfull"), map[string]any{"users": n}, "store of %d users: after a save that met a full disk the store no longer loads: %v", n, err)
				return
			}
			outcome := "kept-old"
			switch canon(got) {
			case canon(old):
			case canon(next):
				outcome = "saved-new"
			default:
				rec.Violate("diskfull", ci, core.Sig("kind", "store_holds_neither_set", "part", "diskfull"), map[string]any{"users": n}, "store of %d users: after a save that met a full disk the store holds %d users, neither the previous nor the new set", n, len(got))
				return
			}
			mem := map[string][]byte{}
			for _, uc := range ms.Credentials() {
				mem[uc.Name] = uc.UPSK
			}
			if canon(mem) != canon(next) {
				rec.Violate("diskfull", ci, core.Sig("kind", "memory_lost_after_failed_save", "part", "diskfull"), nil, "store of %d users: the running manager no longer holds the acknowledged set after the failed save", n)
				return
			}
			rec.Count("diskfull_saves", 1)
			rec.Class("diskfull/users=%d/%s", n, outcome)
		}()
	}
}
