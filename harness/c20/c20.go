// Package c20 monitors "a crash or write failure while saving credentials
// never destroys the store": child processes run the real credential manager
// and are cut off (RLIMIT_FSIZE => EFBIG, or killed by SIGXFSZ) after every
// byte count of the save; the parent then loads the file with a fresh manager.
// A second part walks the shutdown phases of the save debounce on a virtual
// clock.
package c20

import (
	"bytes"
	"context"
	"encoding/json"
	"fmt"
	"os"
	"os/exec"
	"os/signal"
	"path/filepath"
	"sort"
	"strings"
	"sync"
	"syscall"
	"time"
	"unsafe"

	"github.com/database64128/shadowsocks-go/cred"
	"github.com/database64128/shadowsocks-go/ss2022"
	"github.com/database64128/shadowsocks-go/verifhook"
	"go.uber.org/zap"

	"verif/core"
	"verif/forge"
)

func init() {
	core.Register("C20", "crashpoints", runCrashPoints)
	core.Register("C20", "child", runChild)
	core.Register("C20", "shutdown", runShutdown)
}

const keySize = 16

type spec struct {
	Path    string            `json:"path"`
	Initial map[string][]byte `json:"initial"`
	Op      string            `json:"op"` // add | delete | update
	K       int64             `json:"k"`  // RLIMIT_FSIZE during the save
	Mode    string            `json:"mode"`
}

func userName(i int) string { return fmt.Sprintf("user%02d", i) }

func initialUsers(n int) map[string][]byte {
	m := map[string][]byte{}
	for i := 0; i < n; i++ {
		m[userName(i)] = forge.Key(keySize, fmt.Sprintf("c20/%d", i))
	}
	return m
}

func applyOp(m map[string][]byte, op string) map[string][]byte {
	out := map[string][]byte{}
	for k, v := range m {
		out[k] = v
	}
	switch op {
	case "add":
		out["zz-new"] = forge.Key(keySize, "c20/new")
	case "delete":
		delete(out, userName(0))
	case "update":
		out[userName(0)] = forge.Key(keySize, "c20/rotated")
	case "add-after-restart":
		out["zz-restart"] = forge.Key(keySize, "c20/restart")
	}
	return out
}

func doOp(ms *cred.ManagedServer, op string) error {
	switch op {
	case "add":
		return ms.AddCredential("zz-new", forge.Key(keySize, "c20/new"))
	case "delete":
		return ms.DeleteCredential(userName(0))
	case "update":
		return ms.UpdateCredential(userName(0), forge.Key(keySize, "c20/rotated"))
	case "add-after-restart":
		return ms.AddCredential("zz-restart", forge.Key(keySize, "c20/restart"))
	}
	return fmt.Errorf("bad op")
}

func marshalStore(m map[string][]byte) []byte {
	b, _ := json.MarshalIndent(m, "", "    ")
	return append(b, '\n')
}

func canon(m map[string][]byte) string {
	var ks []string
	for k := range m {
		ks = append(ks, k)
	}
	sort.Strings(ks)
	var sb strings.Builder
	for _, k := range ks {
		fmt.Fprintf(&sb, "%s=%x;", k, m[k])
	}
	return sb.String()
}

// loadWithFreshManager loads the file the way a restarted server would.
func loadWithFreshManager(path string) (map[string][]byte, error) {
	mgr := cred.NewManager(zap.NewNop())
	var store ss2022.CredStore
	ms, err := mgr.RegisterServer("restart", path, keySize, &store, nil)
	if err != nil {
		return nil, err
	}
	m := map[string][]byte{}
	for _, uc := range ms.Credentials() {
		m[uc.Name] = uc.UPSK
	}
	return m, nil
}

// runChild is executed in the child process.
func runChild(e *core.Env) {
	b, err := os.ReadFile(filepath.Join(e.WorkDir, "spec.json"))
	if err != nil {
		fmt.Println("CHILD-ERROR", err)
		os.Exit(3)
	}
	var sp spec
	if err := json.Unmarshal(b, &sp); err != nil {
		fmt.Println("CHILD-ERROR", err)
		os.Exit(3)
	}
	mgr := cred.NewManager(zap.NewNop())
	var store ss2022.CredStore
	ms, err := mgr.RegisterServer("srv", sp.Path, keySize, &store, nil)
	if err != nil {
		fmt.Println("CHILD-ERROR register", err)
		os.Exit(3)
	}
	ctx, cancel := context.WithCancel(context.Background())
	mgr.Start(ctx)
	if err := doOp(ms, sp.Op); err != nil {
		fmt.Println("CHILD-ERROR op", err)
		os.Exit(3)
	}
	fmt.Println("ACK")
	if sp.Mode == "efbig" {
		signal.Ignore(syscall.SIGXFSZ)
	} else {
		// kill mode: the kernel's default action for SIGXFSZ must end the process inside the write. A SIG_IGN
		// disposition inherited from whatever launched the check (Python and others ignore SIGXFSZ) is honoured by
		// the Go runtime and would silently turn the crash into a write error: install SIG_DFL with a raw
		// rt_sigaction, which also takes the Go runtime's own handler out of the way.
		type ksigaction struct {
			handler, flags, restorer uintptr
			mask                     uint64
		}
		var sa ksigaction // handler 0 = SIG_DFL
		if _, _, errno := syscall.RawSyscall6(syscall.SYS_RT_SIGACTION, uintptr(syscall.SIGXFSZ), uintptr(unsafe.Pointer(&sa)), 0, 8, 0, 0); errno != 0 {
			fmt.Println("CHILD-ERROR sigaction", errno)
			os.Exit(3)
		}
	}
	var old syscall.Rlimit
	syscall.Getrlimit(syscall.RLIMIT_FSIZE, &old)
	if sp.K >= 0 {
		syscall.Setrlimit(syscall.RLIMIT_FSIZE, &syscall.Rlimit{Cur: uint64(sp.K), Max: old.Max})
	}
	cancel()
	mgr.Stop() // the save runs here (shutdown path); in kill mode the process may die inside it
	if sp.Mode == "efbig" {
		// the running server must still hold the new set, and a later save must repair the file
		want := canon(applyOp(sp.Initial, sp.Op))
		got := map[string][]byte{}
		for _, uc := range ms.Credentials() {
			got[uc.Name] = uc.UPSK
		}
		if canon(got) != want {
			fmt.Println("MEMORY-LOST")
		}
		syscall.Setrlimit(syscall.RLIMIT_FSIZE, &old)
		ctx2, cancel2 := context.WithCancel(context.Background())
		mgr.Start(ctx2)
		if err := ms.AddCredential("zz-repair", forge.Key(keySize, "c20/repair")); err != nil {
			fmt.Println("CHILD-ERROR repair", err)
		}
		cancel2()
		mgr.Stop()
		fmt.Println("REPAIRED")
	}
	fmt.Println("DONE")
	os.Exit(0)
}

type cpCase struct {
	N    int    `json:"users"`
	Op   string `json:"op"`
	Mode string `json:"mode"`
	K    int64  `json:"k"`
}

func runCrashPoints(e *core.Env) {
	rec := e.Rec
	rec.Rule("crashpoints: one case = (store of N users, API change add/delete/update, fault mode: write error EFBIG or kill by SIGXFSZ, byte budget k); EVERY k in 0..len(new document)+1 is executed in its own child process running the real cred.Manager; afterwards the parent loads the file with a fresh manager; after a kill the server is restarted (another child) on whatever the crash left in the directory, a further change is acknowledged and the service stopped cleanly - the store must then hold it; class = (N, op, mode, result old/new)")
	ns := []int{1, 3}
	if !e.Quick() {
		ns = []int{0, 1, 3, 40}
	}
	var cases []cpCase
	for _, n := range ns {
		for _, op := range []string{"add", "delete", "update"} {
			if n == 0 && op != "add" {
				continue
			}
			L := int64(len(marshalStore(applyOp(initialUsers(n), op))))
			for _, mode := range []string{"efbig", "kill"} {
				step := int64(1)
				if n >= 40 && e.Quick() {
					step = 7
				}
				for k := int64(0); k <= L+1; k += step {
					cases = append(cases, cpCase{n, op, mode, k})
				}
				cases = append(cases, cpCase{n, op, mode, -1}) // no fault at all
			}
		}
	}
	self, err := os.Executable()
	if err != nil {
		core.Fatalf("executable: %v", err)
	}
	rec.Exhaustive(true)
	core.Parallel(e, "crashpoints", len(cases), 16, func(i int) {
		c := cases[i]
		rec.Begin("crashpoints", i, fmt.Sprintf("%+v", c))
		rec.Eval()
		dir := filepath.Join(e.WorkDir, fmt.Sprintf("cp-%d", i))
		os.MkdirAll(dir, 0o755)
		defer os.RemoveAll(dir)
		path := filepath.Join(dir, "users.json")
		initial := initialUsers(c.N)
		os.WriteFile(path, marshalStore(initial), 0o644)
		sp := spec{Path: path, Initial: initial, Op: c.Op, K: c.K, Mode: c.Mode}
		sb, _ := json.Marshal(sp)
		os.WriteFile(filepath.Join(dir, "spec.json"), sb, 0o644)
		ctx, cancel := context.WithTimeout(context.Background(), 60*time.Second)
		defer cancel()
		cmd := exec.CommandContext(ctx, self, "-test.run=^TestVerif$", "-test.timeout=0", "-prop", "C20", "-part", "child", "-out", filepath.Join(dir, "unused.json"), "-work", dir)
		var out bytes.Buffer
		cmd.Stdout, cmd.Stderr = &out, &out // pipes: not subject to RLIMIT_FSIZE
		runErr := cmd.Run()
		if ctx.Err() != nil {
			rec.Inconclusive("child-watchdog")
			return
		}
		o := out.String()
		viol := func(kind, format string, a ...any) {
			rec.Violate("crashpoints", i, core.Sig("kind", kind, "part", "crashpoints", "mode", c.Mode), map[string]any{"case": c, "child_output": core.Hex([]byte(o), 400)}, format, a...)
		}
		if strings.Contains(o, "CHILD-ERROR") || !strings.Contains(o, "ACK") {
			rec.Inconclusive("child-error")
			rec.Note("child error: %s", o)
			return
		}
		newSet := applyOp(initial, c.Op)
		L := int64(len(marshalStore(newSet)))
		faulted := c.K >= 0 && c.K < L
		if c.Mode == "efbig" {
			if runErr != nil || !strings.Contains(o, "DONE") {
				viol("process_died_on_write_error", "the process did not survive a write error at byte %d: %v", c.K, runErr)
				return
			}
			if strings.Contains(o, "MEMORY-LOST") {
				viol("memory_lost_after_failed_save", "after the failed save the running server no longer holds the new user set")
				return
			}
			// after the repair save the file must hold new + zz-repair
			want := applyOp(initial, c.Op)
			want["zz-repair"] = forge.Key(keySize, "c20/repair")
			got, err := loadWithFreshManager(path)
			if err != nil {
				viol("file_unloadable_after_repair", "after a later successful save the file still does not load: %v", err)
				return
			}
			if canon(got) != canon(want) {
				viol("file_not_repaired", "a later save did not repair the file: holds {%s}", canon(got))
				return
			}
			rec.Class("N=%d/%s/efbig/faulted=%v/repaired", c.N, c.Op, faulted)
			// the state right after the failed save is observed in kill mode (same byte budget) and below via a snapshot copy
			return
		}
		// kill mode: the process died at byte k (or finished when the budget sufficed)
		if faulted && strings.Contains(o, "DONE") {
			// the crash this case is about did not happen: nothing was decided
			rec.Inconclusive("kill-mode child survived SIGXFSZ")
			return
		}
		if faulted {
			rec.Count("children_killed_inside_a_save", 1)
		}
		got, err := loadWithFreshManager(path)
		if err != nil {
			b, _ := os.ReadFile(path)
			viol("file_unloadable", "after a crash at byte %d of the save the store file does not load (%d bytes on disk): %v", c.K, len(b), err)
			return
		}
		res := ""
		switch canon(got) {
		case canon(initial):
			res = "old"
		case canon(newSet):
			res = "new"
		default:
			viol("file_neither_old_nor_new", "after a crash at byte %d the file holds {%s}: neither the previous nor the new user set", c.K, canon(got))
			return
		}
		if !faulted && res != "new" {
			viol("acknowledged_change_not_saved", "no fault occurred (budget %d >= %d) but the acknowledged change was not written before the service stopped", c.K, L)
			return
		}
		// ---- the server is restarted on what the crash left behind (store file plus whatever else is in its directory),
		// another change is made through the API and the service is stopped cleanly: that change must be on disk ----
		if faulted && (!e.Quick() || c.K%4 == 0 || c.K == L-1) {
			// (quick tier: every fourth crash point and the last one; thorough: every crash point)
			sp2 := spec{Path: path, Initial: got, Op: "add-after-restart", K: -1, Mode: "kill"}
			sb2, _ := json.Marshal(sp2)
			os.WriteFile(filepath.Join(dir, "spec.json"), sb2, 0o644)
			ctx2, cancel2 := context.WithTimeout(context.Background(), 60*time.Second)
			defer cancel2()
			cmd2 := exec.CommandContext(ctx2, self, "-test.run=^TestVerif$", "-test.timeout=0", "-prop", "C20", "-part", "child", "-out", filepath.Join(dir, "unused.json"), "-work", dir)
			var out2 bytes.Buffer
			cmd2.Stdout, cmd2.Stderr = &out2, &out2
			cmd2.Run()
			if ctx2.Err() != nil {
				rec.Inconclusive("child-watchdog")
				return
			}
			o2 := out2.String()
			if strings.Contains(o2, "CHILD-ERROR") || !strings.Contains(o2, "DONE") {
				viol("restart_after_crash_failed", "after a crash at byte %d of a save the server could not be restarted, changed and stopped on the same store: %s", c.K, core.Hex([]byte(o2), 200))
				return
			}
			got2, err := loadWithFreshManager(path)
			if err != nil {
				viol("file_unloadable", "after a crash at byte %d, a restart, one more change and a clean stop the store does not load: %v", c.K, err)
				return
			}
			if want2 := applyOp(got, "add-after-restart"); canon(got2) != canon(want2) {
				left, _ := os.ReadDir(dir)
				var names []string
				for _, f := range left {
					names = append(names, f.Name())
				}
				viol("change_after_crashed_save_not_saved", "a save crashed at byte %d; the server was restarted on the same store, a user was added through the API (acknowledged) and the service stopped cleanly, but the store holds {%s} instead of {%s}; directory: %v", c.K, canon(got2), canon(want2), names)
				return
			}
			rec.Count("restarts_after_crash_checked", 1)
		}
		rec.Class("N=%d/%s/kill/faulted=%v/%s", c.N, c.Op, faulted, res)
		if i%97 == 0 {
			rec.Sample(8, map[string]any{"case": c, "file_after": res})
		}
	})
}

// ---- shutdown phases on a virtual clock ----

type phase struct {
	Name string `json:"phase"`
}

func runShutdown(e *core.Env) {
	rec := e.Rec
	rec.Rule("shutdown: one case = (store of N users, 1-3 acknowledged API changes, the phase of the save debounce at which shutdown is requested: job still queued / picked up (0 ns) / cooling down at 1 ns, 2.5 s, 5 s-1 ns / at the before-save hook / at the after-save hook with another change acknowledged in between / idle after a completed save); after Stop returns the file must hold exactly the acknowledged set; class = (phase, changes, hooks reached)")
	phases := []string{"queued", "picked", "cool+1ns", "cool+2.5s", "cool+5s-1ns", "hook-beforeSave", "hook-afterSave+change", "hook-top+change", "idle-after-save"}
	n := e.N(len(phases)*40, len(phases)*2000)
	// hooks are process-global: hook-directed cases run strictly one at a time after the others have finished
	body := func(i int, hooked bool) {
		r := core.NewRNG(e.Seed, "c20.shutdown", i)
		ph := phases[i%len(phases)]
		useHook := strings.HasPrefix(ph, "hook-")
		if useHook != hooked {
			return
		}
		rec.Begin("shutdown", i, ph)
		rec.Eval()
		var reached []string
		var detail any
		dead := core.Bubble(e, func() {
			dir := filepath.Join(e.WorkDir, fmt.Sprintf("sd-%d", i))
			os.MkdirAll(dir, 0o755)
			defer os.RemoveAll(dir)
			path := filepath.Join(dir, "users.json")
			nUsers := r.Pick(0, 1, 3)
			initial := initialUsers(nUsers)
			os.WriteFile(path, marshalStore(initial), 0o644)
			mgr := cred.NewManager(zap.NewNop())
			var store ss2022.CredStore
			ms, err := mgr.RegisterServer("srv", path, keySize, &store, nil)
			if err != nil {
				core.Fatalf("register: %v", err)
			}
			ctx, cancel := context.WithCancel(context.Background())
			want := map[string][]byte{}
			for k, v := range initial {
				want[k] = v
			}
			ack := func(name string) {
				k := forge.Key(keySize, "c20/sd/"+name)
				if err := ms.AddCredential(name, k); err != nil {
					core.Fatalf("add: %v", err)
				}
				want[name] = k
			}
			// hook plumbing: the save goroutine blocks at the chosen hook until released
			var (
				hmu      sync.Mutex
				waitAt   string
				arrived  = make(chan struct{}, 4)
				release  = make(chan struct{})
				hookSeen = map[string]int{}
			)
			if useHook {
				switch ph {
				case "hook-beforeSave":
					waitAt = "cred.dequeueSave.beforeSave"
				case "hook-afterSave+change":
					waitAt = "cred.dequeueSave.afterSave"
				case "hook-top+change":
					waitAt = "cred.dequeueSave.top"
				}
				first := true
				verifhook.Set(func(name string) {
					hmu.Lock()
					hookSeen[name]++
					hit := name == waitAt && (name != "cred.dequeueSave.top" || hookSeen[name] == 2) && first
					if hit {
						first = false
					}
					hmu.Unlock()
					if hit {
						arrived <- struct{}{}
						<-release
					}
				})
				defer verifhook.Set(nil)
			}
			mgr.Start(ctx)
			changes := r.Range(1, 3)
			for c := 0; c < changes; c++ {
				ack(fmt.Sprintf("n%d", c))
			}
			switch ph {
			case "queued":
				// no yield: the job may still sit in the queue when the context is cancelled
			case "picked":
				core.Wait()
			case "cool+1ns":
				core.Wait()
				time.Sleep(1)
			case "cool+2.5s":
				core.Wait()
				time.Sleep(2500 * time.Millisecond)
			case "cool+5s-1ns":
				core.Wait()
				time.Sleep(5*time.Second - 1)
			case "idle-after-save":
				time.Sleep(6 * time.Second)
				core.Wait()
			case "hook-beforeSave":
				time.Sleep(5 * time.Second)
				<-arrived
				reached = append(reached, waitAt)
			case "hook-afterSave+change", "hook-top+change":
				time.Sleep(5 * time.Second)
				<-arrived
				reached = append(reached, waitAt)
				// a second change is acknowledged while the save goroutine sits between "saved" and "waiting for the next job"
				ack("late")
			}
			cancel()
			if useHook {
				close(release)
			}
			mgr.Stop()
			got, err := loadWithFreshManager(path)
			detail = map[string]any{"phase": ph, "users": nUsers, "changes": changes, "hooks": hookSeen}
			if err != nil {
				rec.Violate("shutdown", i, core.Sig("kind", "file_unloadable", "part", "shutdown", "phase", ph), detail, "after Stop the store file does not load: %v", err)
				return
			}
			if canon(got) != canon(want) {
				rec.Violate("shutdown", i, core.Sig("kind", "acknowledged_change_not_saved", "part", "shutdown", "phase", ph), detail,
					"shutdown requested in phase %q: after Stop the file holds {%s} but {%s} was acknowledged", ph, keys(got), keys(want))
				return
			}
			rec.Class("phase=%s/users=%d/changes=%d/hook-reached=%v", ph, nUsers, changes, len(reached) > 0)
		})
		if dead != "" {
			rec.Violate("shutdown", i, core.Sig("kind", "deadlock", "part", "shutdown", "phase", ph), detail, "deadlock: %s", dead)
		}
		if useHook && len(reached) == 0 {
			rec.Inconclusive("hook-not-reached:" + ph)
		}
		if i%50 == 0 || (useHook && i%7 == 0) {
			rec.Sample(8, detail)
		}
	}
	core.Parallel(e, "shutdown", n, 8, func(i int) { body(i, false) })
	core.Parallel(e, "shutdown-hooked", n, 1, func(i int) { body(i, true) })
}

func keys(m map[string][]byte) string {
	var ks []string
	for k := range m {
		ks = append(ks, k)
	}
	sort.Strings(ks)
	return strings.Join(ks, ",")
}
