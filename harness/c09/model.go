package c09

// The reference model. It is written from the field comments of
// router.RouteConfig, the README ("By default, the router uses the configured
// DNS server to resolve domain names and match IP rules ... To disable IP rule
// matching for domain names, set disableNameResolutionForIPRules"; the four
// domain-set rule kinds) and the statement of C09. It does not share any code
// with /repo: ports are parsed here, domain rules are matched with ==,
// HasSuffix, Contains and Go's regexp, prefixes with netip.Prefix.Contains.
//
// Truth values are T, F, E (a resolver failure, with its class) and O ("the
// documentation leaves this open": the request is not judged).
//
// Readings of the statement that are encoded here:
//   - A resolver failure matters only where the answer depends on it. If another
//     condition of the route is false the route cannot be "a route whose conditions
//     are all satisfied", with or without the resolver: F. (AND is order-free.)
//   - Inside the destination group, a satisfied member together with a member whose
//     resolver fails is accepted either way (match, or the error): the documentation
//     says neither that evaluation stops at the first satisfied member nor that it
//     does not. Value A.
//   - "each invert flag negates its own condition": an inverted domain rule holds for
//     an IP target; an inverted IP rule with name resolution disabled holds for a
//     domain target (the un-inverted condition is false there).
//   - disableNameResolutionForIPRules concerns the IP rules (toPrefixes, toPrefixSets);
//     the toMatchedDomainExpected* rules are refinements of the domain rule and would
//     be meaningless without resolution, so they still resolve.
//   - invertToDomains together with toMatchedDomainExpected*: "all domains except
//     those in ToDomains" + "require the MATCHED domain to resolve to ..." can be read
//     as not(D) and E, or as not(D and E): open (O).
//   - A resolver answer with several addresses that do not agree on membership: the
//     resolver interface promises "one of the associated IP addresses": open (O).
//   - An IPv4-mapped IPv6 address is the IPv4 address (statement: "IPv4-mapped
//     sources"). Whether it ALSO belongs to an IPv6 prefix that covers ::ffff:0:0/96
//     (in practice ::/0) is open (O) when the IPv4 reading says "not a member".
//   - An empty default client name with exactly one client of that protocol means
//     that client (docs/server.json has no router section at all); with several
//     clients there is "no client", hence a rejection (statement: reject / no client).
//   - An invert flag whose list is empty changes nothing ("If empty, match all").

import (
	"net/netip"
	"regexp"
	"slices"
	"strconv"
	"strings"

	"github.com/database64128/shadowsocks-go/router"

	"verif/rtx"
)

type tv struct {
	k   byte   // 'T' 'F' 'E' 'O' 'A'
	why string // E/A: error class; O: reason
}

var (
	tT = tv{k: 'T'}
	tF = tv{k: 'F'}
)

func fromBool(b bool) tv {
	if b {
		return tT
	}
	return tF
}

// not negates a decided value; failures and open points stay what they are.
func (v tv) not(invert bool) tv {
	switch {
	case !invert:
		return v
	case v.k == 'T':
		return tF
	case v.k == 'F':
		return tT
	}
	return v
}

// expect is what the model allows: any of Allowed, or nothing to say (Open).
type expect struct {
	Allowed []string `json:"allowed"`
	Open    string   `json:"open,omitempty"`
	Via     string   `json:"via"` // "route k (name)" or "default"
}

type model struct {
	w    *world
	note func(format string, a ...any) // coverage trace, no influence on the answer
}

func portIn(ports []uint16, ranges string, p uint16) bool {
	if slices.Contains(ports, p) {
		return true
	}
	for _, item := range strings.Split(ranges, ",") {
		lo, hi, isRange := strings.Cut(item, "-")
		a, _ := strconv.Atoi(lo)
		b := a
		if isRange {
			b, _ = strconv.Atoi(hi)
		}
		if item != "" && a <= int(p) && int(p) <= b {
			return true
		}
	}
	return false
}

func (m *model) prefixes(list []netip.Prefix, sets []string) []netip.Prefix {
	out := slices.Clone(list)
	for _, s := range sets {
		out = append(out, m.w.PrefixSets[s]...)
	}
	return out
}

func addrIn(ps []netip.Prefix, a netip.Addr) tv {
	u := a.Unmap()
	for _, p := range ps {
		if p.Contains(u) {
			return tT
		}
	}
	if a.Is4In6() {
		for _, p := range ps {
			if p.Contains(a) {
				return tv{k: 'O', why: "IPv4-mapped address inside an IPv6 prefix"}
			}
		}
	}
	return tF
}

func ruleMatches(r dsRule, re *regexp.Regexp, d string) bool {
	switch r.Kind {
	case "domain":
		return d == r.Text
	case "suffix":
		return d == r.Text || strings.HasSuffix(d, "."+r.Text)
	case "keyword":
		return strings.Contains(d, r.Text)
	default:
		return re.MatchString(d)
	}
}

func (m *model) domainListed(rc *router.RouteConfig, d string) bool {
	if slices.Contains(rc.ToDomains, d) {
		return true
	}
	for _, s := range rc.ToDomainSets {
		for i, r := range m.w.DomainSets[s] {
			if ruleMatches(r, m.w.dsRegexps[s][i], d) {
				return true
			}
		}
	}
	return false
}

// resolved answers "is the address the name resolves to in ps".
func (m *model) resolved(rc *router.RouteConfig, name string, ps []netip.Prefix) tv {
	order := m.w.ResOrder
	if rc.Resolver != "" {
		order = []string{rc.Resolver}
	}
	for skipped, id := range order {
		rep := m.w.Res[id].Peek(name)
		if rep.Kind != rtx.C09LookupFailed {
			m.note("resolve named=%v ErrLookup-before=%d result=%s", rc.Resolver != "", skipped, rep.Kind)
		}
		switch rep.Kind {
		case rtx.C09LookupFailed:
			continue
		case rtx.C09NoAddress:
			return tv{k: 'E', why: "error:no-address"}
		case rtx.C09OtherFailure:
			return tv{k: 'E', why: "error:other:" + id}
		}
		v := addrIn(ps, rep.Addrs[0])
		for _, a := range rep.Addrs[1:] {
			if o := addrIn(ps, a); o.k != v.k && v.k != 'O' {
				v = tv{k: 'O', why: "answer addresses disagree on membership"}
			}
		}
		return v
	}
	m.note("resolve named=%v all %d resolvers ErrLookup", rc.Resolver != "", len(order))
	return tv{k: 'E', why: "error:unresolved"}
}

// destination evaluates the OR group of the destination kinds (GeoIP excluded).
func (m *model) destination(rc *router.RouteConfig, q *request) tv {
	var members []tv
	if len(rc.ToDomains) > 0 || len(rc.ToDomainSets) > 0 {
		exp := m.prefixes(rc.ToMatchedDomainExpectedPrefixes, rc.ToMatchedDomainExpectedPrefixSets)
		listed := q.Domain != "" && m.domainListed(rc, q.Domain)
		v := fromBool(listed)
		switch {
		case len(exp) > 0 && rc.InvertToDomains:
			v = tv{k: 'O', why: "invertToDomains with expected-IP rules"}
		case len(exp) > 0 && listed:
			v = m.resolved(rc, q.Domain, exp).not(rc.InvertToMatchedDomainExpectedPrefixes)
			m.note("expected-ip inv=%v -> %c", rc.InvertToMatchedDomainExpectedPrefixes, v.k)
		}
		v = v.not(rc.InvertToDomains)
		m.note("to-domain inv=%v expected=%v target=%s -> %c", rc.InvertToDomains, len(exp) > 0, q.targetKind(), v.k)
		members = append(members, v)
	}
	if ps := m.prefixes(rc.ToPrefixes, rc.ToPrefixSets); len(ps) > 0 {
		var v tv
		switch {
		case q.Domain == "":
			v = addrIn(ps, q.IP)
		case rc.DisableNameResolutionForIPRules:
			v = tF
		default:
			v = m.resolved(rc, q.Domain, ps)
		}
		v = v.not(rc.InvertToPrefixes)
		m.note("to-prefix inv=%v noresolve=%v target=%s -> %c", rc.InvertToPrefixes, rc.DisableNameResolutionForIPRules, q.targetKind(), v.k)
		members = append(members, v)
	}
	if len(members) == 0 {
		return tT
	}
	var anyT, anyE, anyO *tv
	for i := range members {
		switch members[i].k {
		case 'T':
			anyT = &members[i]
		case 'E':
			anyE = &members[i]
		case 'O':
			anyO = &members[i]
		}
	}
	switch {
	case anyO != nil: // an open member might also have been a resolver failure: nothing to say about the group
		return *anyO
	case anyT != nil && anyE != nil:
		return tv{k: 'A', why: anyE.why}
	case anyT != nil:
		return tT
	case anyE != nil:
		return *anyE
	}
	return tF
}

// route evaluates one route: AND across kinds.
func (m *model) route(k int, rc *router.RouteConfig, q *request) tv {
	var conds []tv
	dead := false // a false condition was already seen: later ones cannot matter, do not count them as coverage
	add := func(kind string, invert bool, held tv) {
		v := held.not(invert)
		if !dead {
			m.note("%s inv=%v -> %c", kind, invert, v.k)
		}
		dead = dead || v.k == 'F'
		conds = append(conds, v)
	}
	if rc.Network != "" {
		conds = append(conds, fromBool((rc.Network == "udp") == q.UDP))
		dead = conds[0].k == 'F'
		m.note("network %s -> %c", rc.Network, conds[0].k)
	}
	if len(rc.FromServers) > 0 {
		add("from-server of "+bucket(len(m.w.Servers))+" servers", rc.InvertFromServers, fromBool(slices.Contains(rc.FromServers, m.w.Servers[q.Server])))
	}
	if len(rc.FromUsers) > 0 {
		add("from-user", rc.InvertFromUsers, fromBool(slices.Contains(rc.FromUsers, q.User)))
	}
	if len(rc.FromPorts) > 0 || rc.FromPortRanges != "" {
		add("from-port["+m.w.aux[k].From.Repr+"] "+portClass(q.Src.Port()), rc.InvertFromPorts, fromBool(portIn(rc.FromPorts, rc.FromPortRanges, q.Src.Port())))
	}
	if ps := m.prefixes(rc.FromPrefixes, rc.FromPrefixSets); len(ps) > 0 {
		add("from-prefix "+addrClass(q.Src.Addr()), rc.InvertFromPrefixes, addrIn(ps, q.Src.Addr()))
	}
	if len(rc.ToPorts) > 0 || rc.ToPortRanges != "" {
		add("to-port["+m.w.aux[k].To.Repr+"] "+portClass(q.Port), rc.InvertToPorts, fromBool(portIn(rc.ToPorts, rc.ToPortRanges, q.Port)))
	}
	for _, v := range conds {
		if v.k == 'F' {
			return tF
		}
	}
	dest := m.destination(rc, q)
	if dest.k == 'F' {
		return tF
	}
	for _, v := range conds {
		if v.k == 'O' {
			return v
		}
	}
	return dest
}

// portClass and addrClass only label coverage classes.
func portClass(p uint16) string {
	switch p {
	case 0, 1, 65535:
		return "port=" + strconv.Itoa(int(p))
	}
	return "port=other"
}

func addrClass(a netip.Addr) string {
	switch {
	case a.Is4In6():
		return "ip4in6"
	case a.Is4():
		return "ip4"
	}
	return "ip6"
}

func (m *model) clientOf(name string, udp bool) string {
	if name == "reject" {
		return "rejected"
	}
	if udp {
		return "client:udp:" + name
	}
	return "client:tcp:" + name
}

// decide returns what the router may answer for q.
func (m *model) decide(q *request) expect {
	for k := range m.w.Cfg.Routes {
		rc := &m.w.Cfg.Routes[k]
		via := "route " + strconv.Itoa(k) + " (" + rc.Name + ")"
		switch v := m.route(k, rc, q); v.k {
		case 'T':
			return expect{Allowed: []string{m.clientOf(rc.Client, q.UDP)}, Via: via}
		case 'A':
			return expect{Allowed: []string{m.clientOf(rc.Client, q.UDP), v.why}, Via: via}
		case 'E':
			return expect{Allowed: []string{v.why}, Via: via}
		case 'O':
			return expect{Open: v.why, Via: via}
		}
	}
	name, clients := m.w.Cfg.DefaultTCPClientName, m.w.TCP
	if q.UDP {
		name, clients = m.w.Cfg.DefaultUDPClientName, m.w.UDP
	}
	if name == "" {
		name = "reject"
		if len(clients) == 1 {
			name = clients[0]
		}
	}
	return expect{Allowed: []string{m.clientOf(name, q.UDP)}, Via: "default"}
}
