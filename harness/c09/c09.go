// Package c09 monitors "routing picks the first route whose documented
// conditions all hold": random router.Config values are built into the REAL
// router with router.Config.Router(...) (identity-tagged fake clients, scripted
// resolvers, domain / prefix set files written to the scratch directory) and
// every answer of Router.GetTCPClient / GetUDPClient is compared with an
// independent reference model (model.go) on (client identity | rejected |
// error class). GeoIP criteria are excluded: they need a MaxMind database,
// which does not exist offline.
package c09

import (
	"context"
	"errors"
	"fmt"
	"os"
	"path/filepath"
	"runtime"
	"runtime/debug"
	"slices"
	"strings"

	"github.com/database64128/shadowsocks-go/dns"
	"github.com/database64128/shadowsocks-go/netio"
	"github.com/database64128/shadowsocks-go/router"
	"github.com/database64128/shadowsocks-go/zerocopy"
	"go.uber.org/zap"

	"verif/core"
	"verif/rtx"
)

func init() { core.Register("C09", "routes", runRoutes) }

const ruleText = "routes: case i = one router.Config from (seed,i): 0..6 routes; per route every criterion kind absent / present / inverted " +
	"(fromServers over 1..70 servers, fromUsers, fromPorts+fromPortRanges, fromPrefixes+fromPrefixSets, toPorts+toPortRanges, toDomains+toDomainSets, " +
	"toMatchedDomainExpectedPrefixes/-PrefixSets, toPrefixes+toPrefixSets), network tcp/udp/empty, client real or reject, resolver named or all resolvers in order, " +
	"disableNameResolutionForIPRules; defaults empty / named / reject with 1..3 clients per protocol; port lists that select each representation " +
	"(1 port; 1..16 runs incl. exactly 16; 17..40 runs incl. exactly 17; runs touching 1 and 65535; spelled as numbers, ranges, split / repeated ranges); " +
	"toDomains with 1..30 names; domain-set text files with domain:/suffix:/keyword:/regexp: rules (0/1/3/16/17/30 domains, 0..9 suffixes with nested suffix rules in both orders, " +
	"comments, capacity hints); prefixes incl. /0, /32, /128, host bits set, reused prefix-set files. Per configuration N requests from (seed,i,j): free or aimed at one route, " +
	"values next to the criteria's own boundaries (port 0/1/65535 and run edges +-1, first/last address of a prefix and its outer neighbours, IPv4-mapped forms, " +
	"listed / unknown / empty user, every server index, domain vs IP target, names derived from rules: the rule, a subdomain, a parent, one character more). " +
	"Resolvers are scripted per (resolver,name): answer (1-2 addresses) / no-address / ErrLookup / other error. " +
	"GeoIP criteria (fromGeoIPCountries, toGeoIPCountries, toMatchedDomainExpectedGeoIPCountries) are NOT generated: they need a MaxMind database that does not exist offline; " +
	"hence the source-address OR group has one member only and OR is exercised in the destination group. " +
	"evaluations = requests compared; distinct_nontrivial = distinct (criterion kind, invert, representation / target kind, value) conditions the model evaluated on a request the real router answered, " +
	"resolver paths, outcome kinds per deciding route position, and configuration shapes"

// classify maps a real answer to the compared class.
func classify(client any, err error) string {
	var other *rtx.C09OtherError
	switch {
	case err == nil:
		switch c := client.(type) {
		case *rtx.TCPClient:
			return "client:" + c.ID
		case *rtx.UDPClient:
			return "client:" + c.ID
		}
		return fmt.Sprintf("client:unknown %T", client)
	case err == router.ErrRejected:
		return "rejected"
	case errors.Is(err, dns.ErrDomainNoAssociatedIPs):
		return "error:no-address"
	case errors.As(err, &other):
		return "error:other:" + other.Resolver
	}
	return "error:unresolved" // any other error: no resolver could look the name up
}

// kindOf strips identities from a class for signatures and coverage.
func kindOf(class string) string {
	if i := strings.IndexByte(class, ':'); i > 0 {
		if strings.HasPrefix(class, "error:other") {
			return "error:other"
		}
		if strings.HasPrefix(class, "client") {
			return "client"
		}
	}
	return class
}

func runRoutes(e *core.Env) {
	rec := e.Rec
	rec.Rule(ruleText)
	nCfg := e.N(2000, 30000)
	nReq := e.N(300, 500)
	ctx := context.Background()
	core.Parallel(e, "routes", nCfg, runtime.GOMAXPROCS(0), func(i int) {
		r := core.NewRNG(e.Seed, "c09-config", i)
		w := genWorld(r)
		rec.Begin("routes", i, fmt.Sprintf("%d routes, %d servers, %d resolvers", len(w.Cfg.Routes), len(w.Servers), len(w.ResOrder)))
		dir := filepath.Join(e.WorkDir, fmt.Sprintf("c09-%d", i))
		if err := w.materialise(dir); err != nil {
			core.Fatalf("write set files: %v", err)
		}
		defer os.RemoveAll(dir)

		tcp := map[string]netio.StreamClient{}
		udp := map[string]zerocopy.UDPClient{}
		for _, n := range w.TCP {
			tcp[n] = &rtx.TCPClient{ID: "tcp:" + n}
		}
		for _, n := range w.UDP {
			udp[n] = &rtx.UDPClient{ID: "udp:" + n}
		}
		var resolvers []dns.SimpleResolver
		resolverMap := map[string]dns.SimpleResolver{}
		for _, id := range w.ResOrder {
			resolvers = append(resolvers, w.Res[id])
			resolverMap[id] = w.Res[id]
		}
		servers := map[string]int{}
		for idx, n := range w.Servers {
			servers[n] = idx
		}
		rt, err := w.Cfg.Router(zap.NewNop(), resolvers, resolverMap, tcp, udp, servers)
		if err != nil {
			// every generated configuration is valid by the documentation
			rec.Violate("routes", i, core.Sig("kind", "valid_config_refused", "part", "routes"), w.witness(), "router.Config.Router refused a valid configuration: %v", err)
			return
		}
		defer rt.Close()

		for _, f := range sortedFeatures(w) {
			rec.Class("config: %s", f)
		}
		for _, rc := range w.Cfg.Routes {
			if len(rc.FromPrefixSets) > 1 || len(rc.ToPrefixSets) > 1 || len(rc.ToMatchedDomainExpectedPrefixSets) > 1 {
				rec.Class("config: several prefix sets united in one criterion")
			}
			if len(rc.ToDomains) > 0 {
				rec.Class("config: toDomains count %s", bucket(len(rc.ToDomains)))
			}
		}

		var notes []string
		m := &model{w: w, note: func(format string, a ...any) { notes = append(notes, fmt.Sprintf(format, a...)) }}
		reported := 0
		for j := 0; j < nReq; j++ {
			rq := core.NewRNG(e.Seed, fmt.Sprintf("c09-request-%d", i), j)
			q := w.genRequest(rq)
			notes = notes[:0]
			want := m.decide(q)

			got, stack := ask(ctx, rt, q)
			rec.Eval()
			detail := func() map[string]any {
				d := w.witness()
				d["request"], d["request_index"], d["model"], d["model_trace"], d["router_answered"] = q, j, want, slices.Clone(notes), got
				if q.Domain != "" {
					rs := map[string]string{}
					for _, id := range w.ResOrder {
						rep := w.Res[id].Peek(q.Domain)
						rs[id] = fmt.Sprintf("%s %v", rep.Kind, rep.Addrs)
					}
					d["resolver_script_for_target"] = rs
				}
				return d
			}
			if stack != "" {
				if reported++; reported <= 3 {
					d := detail()
					d["stack"] = stack
					rec.Violate("routes", i, core.Sig("kind", "panic", "part", "routes", "where", core.PanicSite(stack)), d,
						"router panicked on request %d of configuration %d: %s", j, i, got)
				}
				continue
			}
			if want.Open != "" {
				rec.Count("dont_care: "+want.Open, 1)
				continue
			}
			if !slices.Contains(want.Allowed, got) {
				if reported++; reported <= 3 {
					via := "route"
					if want.Via == "default" {
						via = "default"
					}
					rec.Violate("routes", i, core.Sig("kind", "wrong_routing_answer", "part", "routes", "expected", kindOf(want.Allowed[0]), "got", kindOf(got), "decided_by", via),
						detail(), "configuration %d request %d (%s, target %s): router answered %q, the documented rules give %q via %s",
						i, j, map[bool]string{false: "tcp", true: "udp"}[q.UDP], q.targetKind(), got, want.Allowed, want.Via)
				}
				continue
			}
			// coverage: the conditions the model evaluated on this (agreeing) request
			for _, n := range notes {
				rec.Class("cond: %s", n)
			}
			pos := "default"
			if want.Via != "default" {
				pos = "route"
				rec.Max("deepest_deciding_route_index", routeIndex(want.Via))
			}
			rec.Class("outcome: %s via %s, %s, target %s", kindOf(got), pos, map[bool]string{false: "tcp", true: "udp"}[q.UDP], q.targetKind())
			rec.Count("outcome "+kindOf(got), 1)
			rec.Count("decided by "+pos, 1)
			if len(want.Allowed) > 1 {
				rec.Count("either_way: satisfied destination member next to a failing resolver", 1)
			}
			if q.Src.Port() == 0 || q.Port == 0 {
				rec.Class("request: port 0 (%s)", kindOf(got))
			}
			if q.Src.Addr().Is4In6() {
				rec.Class("request: IPv4-mapped source (%s)", kindOf(got))
			}
			if j < 2 && i < 3 {
				rec.Sample(6, map[string]any{"config": w.Cfg, "request": q, "model": want, "router_answered": got})
			}
		}
		// "unless that is disabled": a configuration without any enabled IP rule and without
		// expected-IP rules never has a reason to ask a resolver.
		if !w.mayResolve {
			var calls int64
			for _, id := range w.ResOrder {
				calls += w.Res[id].Calls.Load()
			}
			if calls > 0 {
				rec.Violate("routes", i, core.Sig("kind", "resolver_asked_although_no_rule_resolves", "part", "routes"), w.witness(),
					"configuration %d has no IP rule with name resolution enabled, yet resolvers were asked %d times", i, calls)
			} else if len(w.Cfg.Routes) > 0 {
				rec.Class("config: nothing may resolve, resolvers never asked")
			}
		}
	})
}

func routeIndex(via string) int64 {
	var k int64
	fmt.Sscanf(via, "route %d", &k)
	return k
}

// ask puts one request to the real router. A panic is returned as a stack.
func ask(ctx context.Context, rt *router.Router, q *request) (class, stack string) {
	defer func() {
		if p := recover(); p != nil {
			class, stack = fmt.Sprintf("panic: %v", p), string(debug.Stack())
		}
	}()
	ri := q.info()
	if q.UDP {
		c, err := rt.GetUDPClient(ctx, ri)
		if err == nil && c == nil {
			return "nil client without error", ""
		}
		return classify(c, err), ""
	}
	c, err := rt.GetTCPClient(ctx, ri)
	if err == nil && c == nil {
		return "nil client without error", ""
	}
	return classify(c, err), ""
}
