package c09

import (
	"net/netip"

	"github.com/database64128/shadowsocks-go/conn"
	"github.com/database64128/shadowsocks-go/router"

	"verif/core"
)

// request is one routing question.
type request struct {
	UDP    bool           `json:"udp"`
	Server int            `json:"server_index"`
	User   string         `json:"user"`
	Src    netip.AddrPort `json:"source"`
	IP     netip.Addr     `json:"target_ip,omitzero"`
	Domain string         `json:"target_domain,omitempty"`
	Port   uint16         `json:"target_port"`
}

func (q *request) targetKind() string {
	switch {
	case q.Domain != "":
		return "domain"
	case q.IP.Is4In6():
		return "ip4in6"
	case q.IP.Is4():
		return "ip4"
	}
	return "ip6"
}

func (q *request) info() router.RequestInfo {
	ri := router.RequestInfo{ServerIndex: q.Server, Username: q.User, SourceAddrPort: q.Src}
	if q.Domain != "" {
		ri.TargetAddr = conn.MustAddrFromDomainPort(q.Domain, q.Port)
	} else {
		ri.TargetAddr = conn.AddrFromIPAndPort(q.IP, q.Port)
	}
	return ri
}

func (w *world) randAddr(r *core.RNG) netip.Addr { return w.addrPool[r.Intn(len(w.addrPool))] }
func (w *world) randPort(r *core.RNG) uint16 {
	if r.Chance(1, 5) {
		return uint16(r.Intn(65536))
	}
	return w.portPool[r.Intn(len(w.portPool))]
}

func (w *world) randUser(r *core.RNG) string {
	switch r.Intn(6) {
	case 0:
		return "" // no user
	case 1:
		return "mallory" // not in any list
	}
	return userNames[r.Intn(len(userNames))]
}

// addrNear returns an edge address of one of the prefixes (first, last, or an outer neighbour).
func (w *world) addrNear(r *core.RNG, list []netip.Prefix, sets []string) netip.Addr {
	all := append([]netip.Prefix{}, list...)
	for _, s := range sets {
		all = append(all, w.PrefixSets[s]...)
	}
	e := edgeAddrs(all[r.Intn(len(all))])
	a := e[r.Intn(len(e))]
	if a.Is4() && r.Chance(1, 3) {
		a = mapped(a)
	}
	return a
}

// genRequest draws request j: either free (everything from the pools) or aimed at one
// route: for each criterion of that route a value next to the criterion's own boundary
// (a listed server / user, an edge port of a run, an edge address of a prefix, a name
// derived from a rule), so that deep routes and the destination group are reached.
func (w *world) genRequest(r *core.RNG) *request {
	q := &request{
		UDP: r.Bool(), Server: r.Intn(len(w.Servers)), User: w.randUser(r),
		Src: netip.AddrPortFrom(w.randAddr(r), w.randPort(r)), Port: w.randPort(r),
	}
	if r.Chance(1, 8) {
		q.Server = []int{0, len(w.Servers) - 1}[r.Intn(2)]
	}
	if r.Bool() {
		q.IP = w.randAddr(r)
	} else {
		q.Domain = w.domPool[r.Intn(len(w.domPool))]
	}
	if len(w.Cfg.Routes) == 0 || r.Chance(1, 3) {
		return q
	}
	k := r.Intn(len(w.Cfg.Routes))
	rc, aux := &w.Cfg.Routes[k], w.aux[k]
	aim := func() bool { return !r.Chance(1, 5) }
	if rc.Network != "" && aim() {
		q.UDP = rc.Network == "udp"
	}
	if len(rc.FromServers) > 0 && aim() && !rc.InvertFromServers {
		name := rc.FromServers[r.Intn(len(rc.FromServers))]
		for i, s := range w.Servers {
			if s == name {
				q.Server = i
			}
		}
	}
	if len(rc.FromUsers) > 0 && aim() {
		if rc.InvertFromUsers {
			q.User = []string{"", "mallory"}[r.Intn(2)]
		} else {
			q.User = rc.FromUsers[r.Intn(len(rc.FromUsers))]
		}
	}
	src, sport := q.Src.Addr(), q.Src.Port()
	if aux.From != nil && aim() {
		e := aux.From.edges()
		sport = e[r.Intn(len(e))]
	}
	if len(rc.FromPrefixes)+len(rc.FromPrefixSets) > 0 && aim() {
		src = w.addrNear(r, rc.FromPrefixes, rc.FromPrefixSets)
	}
	q.Src = netip.AddrPortFrom(src, sport)
	if aux.To != nil && aim() {
		e := aux.To.edges()
		q.Port = e[r.Intn(len(e))]
	}
	hasDom := len(rc.ToDomains)+len(rc.ToDomainSets) > 0
	hasIP := len(rc.ToPrefixes)+len(rc.ToPrefixSets) > 0
	switch {
	case hasDom && (!hasIP || r.Bool()) && aim():
		var rules []dsRule
		for _, d := range rc.ToDomains {
			rules = append(rules, dsRule{"domain", d})
		}
		for _, s := range rc.ToDomainSets {
			rules = append(rules, w.DomainSets[s]...)
		}
		names := derive(rules[r.Intn(len(rules))])
		q.Domain, q.IP = names[r.Intn(len(names))], netip.Addr{}
	case hasIP && r.Bool():
		q.Domain, q.IP = "", w.addrNear(r, rc.ToPrefixes, rc.ToPrefixSets)
	}
	return q
}
