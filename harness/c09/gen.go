package c09

import (
	"fmt"
	"hash/fnv"
	"net/netip"
	"os"
	"path/filepath"
	"regexp"
	"sort"
	"strconv"
	"strings"

	"github.com/database64128/shadowsocks-go/domainset"
	"github.com/database64128/shadowsocks-go/prefixset"
	"github.com/database64128/shadowsocks-go/router"

	"verif/core"
	"verif/rtx"
)

// dsRule is one line of a domain-set file.
type dsRule struct {
	Kind string `json:"kind"` // domain | suffix | keyword | regexp
	Text string `json:"text"`
}

// portSpec is a generated port criterion and what the generator knows about it.
type portSpec struct {
	Ports  []uint16
	Ranges string
	Repr   string   // single | ranges | bitset (what the union's count / run count select)
	Runs   [][2]int // merged runs
}

// routeAux keeps generator-side knowledge of a route (used to aim requests, never by the model).
type routeAux struct {
	From, To *portSpec
}

// world is one generated configuration with its environment.
type world struct {
	Cfg        router.Config
	Servers    []string // index -> name
	TCP, UDP   []string // client names per protocol
	ResOrder   []string
	Res        map[string]*rtx.C09Resolver
	DomainSets map[string][]dsRule
	PrefixSets map[string][]netip.Prefix

	dsRegexps  map[string][]*regexp.Regexp // model side: compiled regexp rules, index-aligned with DomainSets
	dsText     map[string]string
	psText     map[string]string
	aux        []routeAux
	base       []netip.Prefix
	addrPool   []netip.Addr
	domPool    []string
	portPool   []uint16
	features   map[string]bool // configuration-level classes
	mayResolve bool            // some route has an IP rule with resolution enabled or an expected-IP rule
}

var (
	labels     = []string{"a", "b", "www", "cdn", "mail", "corp", "ads", "x9", "shop", "api"}
	tlds       = []string{"example", "test", "org", "com"}
	userNames  = []string{"alice", "bob", "carol", "dave"}
	clientPool = []string{"a", "b", "c"}
	// regexp rules paired with names they match / just miss
	regexpRules = []struct {
		Re      string
		Samples []string
	}{
		{`^ads?[0-9]*\.`, []string{"ad.example", "ads7.shop.test", "xads.example", "ads"}},
		{`\.example$`, []string{"a.example", "example", "a.examplex", "a.example.org"}},
		{`^(www|cdn)\.corp\.`, []string{"www.corp.test", "cdn.corp.org", "mail.corp.org", "xwww.corp.test"}},
		{`[0-9]+\.test$`, []string{"x9.test", "a.x9.test", "x9.testx", "x.test"}},
		{`^[a-z]+\.(org|com)$`, []string{"shop.org", "api.com", "a.shop.org", "x9.org"}},
	}
	keywords     = []string{"ads", "corp", "x9", "hop", "pi.c"}
	masterPrefix = []string{
		"0.0.0.0/0", "10.0.0.0/8", "10.1.0.0/16", "10.1.2.0/24", "10.1.2.3/32", "10.1.2.4/30", "192.168.0.0/16",
		"203.0.113.0/24", "128.0.0.0/1", "255.255.255.255/32", "0.0.0.0/32", "127.0.0.0/8", "10.1.2.3/8",
		"::/0", "2001:db8::/32", "2001:db8:1::/48", "2001:db8::1/128", "fc00::/7", "8000::/1", "::1/128",
		"ffff:ffff:ffff:ffff:ffff:ffff:ffff:ffff/128", "64:ff9b::/96", "2001:db8::ffff/33", "::/128",
	}
)

func randDomain(r *core.RNG) string {
	n := r.Pick(1, 2, 2, 3, 3, 4)
	parts := make([]string, 0, n)
	for k := 0; k < n-1; k++ {
		parts = append(parts, labels[r.Intn(len(labels))])
	}
	parts = append(parts, tlds[r.Intn(len(tlds))])
	return strings.Join(parts, ".")
}

func randPrefix(r *core.RNG) netip.Prefix {
	if r.Bool() {
		var b [4]byte
		r.Fill(b[:])
		return netip.PrefixFrom(netip.AddrFrom4(b), r.Pick(0, 1, 7, 8, 9, 15, 16, 17, 23, 24, 25, 31, 32)).Masked()
	}
	var b [16]byte
	r.Fill(b[:])
	if b[0] == 0 && b[1] == 0 {
		b[0] = 0x20 // stay out of ::/16 (no prefixes inside ::ffff:0:0/96: their meaning for mapped addresses is not documented)
	}
	return netip.PrefixFrom(netip.AddrFrom16(b), r.Pick(1, 7, 8, 9, 32, 47, 48, 49, 63, 64, 65, 96, 127, 128)).Masked()
}

// edgeAddrs returns the first and last address of p and their outer neighbours.
func edgeAddrs(p netip.Prefix) []netip.Addr {
	p = p.Masked()
	first := p.Addr()
	b := first.AsSlice()
	for i := p.Bits(); i < len(b)*8; i++ {
		b[i/8] |= 1 << (7 - i%8)
	}
	last, _ := netip.AddrFromSlice(b)
	out := []netip.Addr{first, last}
	if a := first.Prev(); a.IsValid() {
		out = append(out, a)
	}
	if a := last.Next(); a.IsValid() {
		out = append(out, a)
	}
	return out
}

func mapped(a netip.Addr) netip.Addr { return netip.AddrFrom16(a.As16()) }

func pickPortEdge(r *core.RNG) int {
	switch r.Intn(5) {
	case 0:
		return 1
	case 1:
		return r.Pick(2, 63, 64, 65, 127, 128, 1023, 1024, 32767, 32768)
	case 2:
		return r.Range(1, 1000)*64 + r.Range(-1, 1)
	default:
		return r.Range(1, 60000)
	}
}

// genPorts generates a port criterion that selects the wanted representation.
func genPorts(r *core.RNG, repr string) *portSpec {
	var runs [][2]int
	switch repr {
	case "single":
		p := r.Pick(1, 65535, 0, 0, 0)
		if p == 0 {
			p = pickPortEdge(r)
		}
		runs = [][2]int{{p, p}}
	default:
		k := r.Pick(1, 2, 3, 8, 15, 16, 16)
		if repr == "bitset" {
			k = r.Pick(17, 17, 17, 18, 25, 40)
		}
		cur := r.Pick(1, 1, 2, 3, 64, 0)
		if cur == 0 {
			cur = r.Range(1, 3000)
		}
		for j := 0; j < k; j++ {
			w := r.Pick(0, 0, 1, 2, 5, 62, 63, 64, 65, 200)
			if k == 1 && w == 0 {
				w = 1
			}
			runs = append(runs, [2]int{cur, cur + w})
			cur += w + 2 + r.Pick(0, 0, 0, 1, 50, 61, 700)
		}
		if r.Chance(2, 5) { // let the last run touch 65535
			last := &runs[len(runs)-1]
			w := last[1] - last[0]
			last[0], last[1] = 65535-w, 65535
		}
	}
	ps := &portSpec{Repr: repr, Runs: runs}
	// spell the runs: single ports in the number list or in the string, runs as "lo-hi",
	// sometimes cut into adjacent pieces, sometimes repeated, in random order
	var items []string
	for _, run := range runs {
		lo, hi := run[0], run[1]
		switch {
		case lo == hi:
			if r.Bool() {
				ps.Ports = append(ps.Ports, uint16(lo))
			} else {
				items = append(items, strconv.Itoa(lo))
			}
			if r.Chance(1, 6) {
				ps.Ports = append(ps.Ports, uint16(lo))
			}
		case hi-lo >= 3 && r.Chance(1, 4):
			mid := r.Range(lo+1, hi-2)
			items = append(items, fmt.Sprintf("%d-%d", lo, mid), fmt.Sprintf("%d-%d", mid+1, hi))
		case hi-lo >= 2 && r.Chance(1, 6):
			items = append(items, fmt.Sprintf("%d-%d", lo, hi-1), strconv.Itoa(hi))
		case hi-lo >= 1 && r.Chance(1, 8):
			items = append(items, fmt.Sprintf("%d-%d", lo, hi), strconv.Itoa(lo), fmt.Sprintf("%d-%d", lo, hi))
		default:
			items = append(items, fmt.Sprintf("%d-%d", lo, hi))
		}
	}
	perm := r.Perm(len(items))
	shuffled := make([]string, len(items))
	for i, j := range perm {
		shuffled[i] = items[j]
	}
	ps.Ranges = strings.Join(shuffled, ",")
	return ps
}

func (ps *portSpec) edges() []uint16 {
	var out []uint16
	for _, run := range ps.Runs {
		for _, p := range []int{run[0] - 1, run[0], run[1], run[1] + 1, (run[0] + run[1]) / 2} {
			if p >= 0 && p <= 65535 {
				out = append(out, uint16(p))
			}
		}
	}
	return out
}

func hashOf(parts ...string) uint64 {
	h := fnv.New64a()
	for _, p := range parts {
		h.Write([]byte(p))
		h.Write([]byte{0})
	}
	x := h.Sum64()
	x ^= x >> 31
	x *= 0x9e3779b97f4a7c15
	return x ^ x>>29
}

// derive returns names that match a rule and names that just miss it.
func derive(rule dsRule) []string {
	t := rule.Text
	switch rule.Kind {
	case "domain":
		return []string{t, "www." + t, "x" + t, t + ".org"}
	case "suffix":
		out := []string{t, "www." + t, "a.b." + t, "x" + t, t + "x"}
		if i := strings.IndexByte(t, '.'); i > 0 {
			out = append(out, t[i+1:])
		}
		return out
	case "keyword":
		return []string{"a" + t + "b.test", t + ".org", "www." + t}
	default:
		for _, rr := range regexpRules {
			if rr.Re == t {
				return rr.Samples
			}
		}
	}
	return nil
}

func pickSome[T any](r *core.RNG, xs []T, n int) []T {
	if n > len(xs) {
		n = len(xs)
	}
	perm := r.Perm(len(xs))
	out := make([]T, 0, n)
	for _, j := range perm[:n] {
		out = append(out, xs[j])
	}
	return out
}

// presence draws absent / present / inverted for one criterion kind.
func presence(r *core.RNG) (present, invert bool) {
	switch v := r.Intn(100); {
	case v < 62:
		return false, r.Chance(1, 10) // an invert flag on an empty list changes nothing
	case v < 83:
		return true, false
	default:
		return true, true
	}
}

func (w *world) feature(format string, a ...any) { w.features[fmt.Sprintf(format, a...)] = true }

// genWorld generates configuration i. Every configuration is valid by the documentation
// (names resolve, lists well-formed, no port list covering all ports, resolvers present).
func genWorld(r *core.RNG) *world {
	w := &world{
		Res: map[string]*rtx.C09Resolver{}, DomainSets: map[string][]dsRule{}, PrefixSets: map[string][]netip.Prefix{},
		dsRegexps: map[string][]*regexp.Regexp{}, dsText: map[string]string{}, psText: map[string]string{}, features: map[string]bool{},
	}
	for k, n := 0, r.Pick(1, 1, 2, 3, 5, 63, 64, 65, 70); k < n; k++ {
		w.Servers = append(w.Servers, "s"+strconv.Itoa(k))
	}
	w.TCP = clientPool[:r.Pick(1, 2, 3)]
	w.UDP = clientPool[:r.Pick(1, 2, 3)]
	both := w.TCP
	if len(w.UDP) < len(both) {
		both = w.UDP
	}
	defName := func(cl []string) string {
		switch r.Intn(4) {
		case 0:
			return ""
		case 1:
			return "reject"
		}
		return cl[r.Intn(len(cl))]
	}
	w.Cfg.DefaultTCPClientName = defName(w.TCP)
	w.Cfg.DefaultUDPClientName = defName(w.UDP)
	w.feature("default tcp=%s clients=%d", nameClass(w.Cfg.DefaultTCPClientName), len(w.TCP))
	w.feature("default udp=%s clients=%d", nameClass(w.Cfg.DefaultUDPClientName), len(w.UDP))

	// prefixes the configuration draws from, and the address pool around their edges
	for _, s := range pickSome(r, masterPrefix, r.Range(3, 7)) {
		w.base = append(w.base, netip.MustParsePrefix(s))
	}
	for k, n := 0, r.Range(1, 4); k < n; k++ {
		w.base = append(w.base, randPrefix(r))
	}
	for _, p := range w.base {
		for _, a := range edgeAddrs(p) {
			w.addrPool = append(w.addrPool, a)
			if a.Is4() {
				w.addrPool = append(w.addrPool, mapped(a))
			}
		}
	}
	for _, s := range []string{"10.1.2.3", "::ffff:10.1.2.3", "2001:db8::1", "198.51.100.7", "::ffff:198.51.100.7", "2606:4700::1111"} {
		w.addrPool = append(w.addrPool, netip.MustParseAddr(s))
	}

	// prefix sets (text files with comments and blank lines)
	for k, n := 0, r.Pick(0, 1, 2, 3); k < n; k++ {
		name := "ps" + strconv.Itoa(k)
		ps := pickSome(r, w.base, r.Range(1, 4))
		var sb strings.Builder
		sb.WriteString("# prefix set " + name + "\n")
		for _, p := range ps {
			if r.Chance(1, 5) {
				sb.WriteString("\n# next\n")
			}
			sb.WriteString(p.String() + "\n")
		}
		w.PrefixSets[name], w.psText[name] = ps, sb.String()
	}

	// domain sets
	for k, n := 0, r.Pick(0, 1, 1, 2, 3); k < n; k++ {
		name := "ds" + strconv.Itoa(k)
		w.genDomainSet(r, name)
	}

	// resolvers: behaviour is a pure function of (resolver, name)
	profiles := [][4]int{{70, 10, 10, 10}, {25, 25, 25, 25}, {10, 5, 80, 5}, {0, 0, 100, 0}, {40, 0, 60, 0}, {0, 50, 0, 50}, {100, 0, 0, 0}}
	salt := strconv.FormatUint(r.Uint64(), 16)
	pool := w.addrPool
	for k, n := 0, r.Pick(1, 2, 2, 3, 3); k < n; k++ {
		id := "r" + strconv.Itoa(k)
		prof := profiles[r.Intn(len(profiles))]
		w.ResOrder = append(w.ResOrder, id)
		w.Res[id] = &rtx.C09Resolver{ID: id, Fallback: func(name string) rtx.C09Reply {
			h := hashOf(salt, id, name)
			v := int(h % 100)
			h /= 100
			switch {
			case v < prof[0]:
				addrs := []netip.Addr{pool[h%uint64(len(pool))]}
				if (h>>20)%8 == 0 { // several addresses
					addrs = append(addrs, pool[(h>>24)%uint64(len(pool))])
				}
				return rtx.C09Reply{Kind: rtx.C09Answer, Addrs: addrs}
			case v < prof[0]+prof[1]:
				return rtx.C09Reply{Kind: rtx.C09NoAddress}
			case v < prof[0]+prof[1]+prof[2]:
				return rtx.C09Reply{Kind: rtx.C09LookupFailed}
			}
			return rtx.C09Reply{Kind: rtx.C09OtherFailure}
		}}
	}

	// routes
	for k, n := 0, r.Pick(0, 1, 2, 2, 3, 3, 4, 5, 6); k < n; k++ {
		w.genRoute(r, k, both)
	}
	w.feature("routes=%d", len(w.Cfg.Routes))

	// request pools
	w.portPool = append(w.portPool, 0, 1, 2, 80, 443, 65534, 65535)
	for _, a := range w.aux {
		for _, ps := range []*portSpec{a.From, a.To} {
			if ps != nil {
				w.portPool = append(w.portPool, ps.edges()...)
			}
		}
	}
	for _, rc := range w.Cfg.Routes {
		for _, d := range rc.ToDomains {
			w.domPool = append(w.domPool, derive(dsRule{"domain", d})...)
		}
	}
	for _, name := range core.SortedKeys(w.DomainSets) {
		for _, rule := range w.DomainSets[name] {
			w.domPool = append(w.domPool, derive(rule)...)
		}
	}
	for k := 0; k < 6; k++ {
		w.domPool = append(w.domPool, randDomain(r))
	}
	return w
}

func nameClass(s string) string {
	switch s {
	case "", "reject":
		return strconv.Quote(s)
	}
	return "named"
}

func (w *world) genDomainSet(r *core.RNG, name string) {
	nd := r.Pick(0, 1, 3, 16, 17, 30)
	ns := r.Pick(0, 1, 2, 4, 5, 9)
	nk := r.Pick(0, 0, 1, 2)
	nr := r.Pick(0, 0, 1, 2)
	if nd+ns+nk+nr == 0 {
		ns = 1
	}
	var rules []dsRule
	seen := map[string]bool{}
	for len(rules) < nd {
		d := randDomain(r)
		if !seen[d] {
			seen[d] = true
			rules = append(rules, dsRule{"domain", d})
		}
	}
	var suffixes []string
	for len(suffixes) < ns {
		s := randDomain(r)
		if len(suffixes) > 0 && r.Chance(1, 2) {
			// a rule nested under an earlier one (child after parent) or above it (parent after child)
			o := suffixes[r.Intn(len(suffixes))]
			if i := strings.IndexByte(o, '.'); i > 0 && r.Bool() {
				s = o[i+1:]
			} else {
				s = labels[r.Intn(len(labels))] + "." + o
			}
		}
		suffixes = append(suffixes, s) // duplicates are allowed: a rule list is a set
	}
	for _, s := range suffixes {
		rules = append(rules, dsRule{"suffix", s})
	}
	for _, kw := range pickSome(r, keywords, nk) {
		rules = append(rules, dsRule{"keyword", kw})
	}
	for _, rr := range pickSome(r, regexpRules, nr) {
		rules = append(rules, dsRule{"regexp", rr.Re})
	}
	// file order: either grouped by kind (suffix rules keep their generation order, so both
	// parent-first and child-first occur) or fully shuffled
	if r.Bool() {
		perm := r.Perm(len(rules))
		sh := make([]dsRule, len(rules))
		for i, j := range perm {
			sh[i] = rules[j]
		}
		rules = sh
	}
	var sb strings.Builder
	switch r.Intn(3) {
	case 0:
		fmt.Fprintf(&sb, "# shadowsocks-go domain set capacity hint %d %d %d %d DSKR\n", nd, ns, nk, nr)
	case 1:
		sb.WriteString("# generated for C09\n\n")
	}
	regs := make([]*regexp.Regexp, len(rules))
	for i, rule := range rules {
		if r.Chance(1, 12) {
			sb.WriteString("# comment\n")
		}
		sb.WriteString(rule.Kind + ":" + rule.Text + "\n")
		if rule.Kind == "regexp" {
			regs[i] = regexp.MustCompile(rule.Text)
		}
	}
	w.DomainSets[name], w.dsRegexps[name], w.dsText[name] = rules, regs, sb.String()
	w.feature("domain-set rules: domain=%s suffix=%s keyword=%d regexp=%d", bucket(nd), bucket(ns), nk, nr)
	for i, a := range suffixes {
		for j, b := range suffixes {
			if i < j && strings.HasSuffix(b, "."+a) {
				w.feature("domain-set nested suffix: parent generated first")
			}
			if i < j && strings.HasSuffix(a, "."+b) {
				w.feature("domain-set nested suffix: child generated first")
			}
		}
	}
}

func bucket(n int) string {
	switch {
	case n <= 1:
		return strconv.Itoa(n)
	case n <= 4:
		return "2-4"
	case n <= 16:
		return "5-16"
	case n <= 64:
		return "17-64"
	}
	return ">64"
}

func (w *world) genRoute(r *core.RNG, k int, both []string) {
	rc := router.RouteConfig{Name: "route" + strconv.Itoa(k)}
	var aux routeAux
	rc.Network = r.PickStr("", "", "tcp", "udp")
	cl := both
	switch rc.Network {
	case "tcp":
		cl = w.TCP
	case "udp":
		cl = w.UDP
	}
	rc.Client = cl[r.Intn(len(cl))]
	if r.Chance(1, 4) {
		rc.Client = "reject"
	}
	if r.Chance(1, 3) {
		rc.Resolver = w.ResOrder[r.Intn(len(w.ResOrder))]
	}
	var present bool
	if present, rc.InvertFromServers = presence(r); present {
		rc.FromServers = pickSome(r, w.Servers, r.Pick(1, 1, 2, 3, len(w.Servers)))
	}
	if present, rc.InvertFromUsers = presence(r); present {
		rc.FromUsers = pickSome(r, userNames, r.Pick(1, 1, 2, 3))
	}
	if present, rc.InvertFromPorts = presence(r); present {
		aux.From = genPorts(r, r.PickStr("single", "ranges", "bitset"))
		rc.FromPorts, rc.FromPortRanges = aux.From.Ports, aux.From.Ranges
	}
	if present, rc.InvertFromPrefixes = presence(r); present {
		rc.FromPrefixes, rc.FromPrefixSets = w.pickPrefixes(r)
	}
	if present, rc.InvertToPorts = presence(r); present {
		aux.To = genPorts(r, r.PickStr("single", "ranges", "bitset"))
		rc.ToPorts, rc.ToPortRanges = aux.To.Ports, aux.To.Ranges
	}
	// destination group: domain rules (with optional expected-IP refinement) and IP rules
	if present, rc.InvertToDomains = presence(r); present {
		sets := core.SortedKeys(w.DomainSets)
		useList := len(sets) == 0 || r.Chance(3, 5)
		if useList {
			seen := map[string]bool{}
			for n := r.Pick(1, 2, 3, 16, 17, 30); len(rc.ToDomains) < n; {
				d := randDomain(r)
				if !seen[d] {
					seen[d] = true
					rc.ToDomains = append(rc.ToDomains, d)
				}
			}
		}
		if len(sets) > 0 && (!useList || r.Bool()) {
			rc.ToDomainSets = pickSome(r, sets, r.Pick(1, 1, 2))
		}
		if r.Chance(1, 3) {
			rc.ToMatchedDomainExpectedPrefixes, rc.ToMatchedDomainExpectedPrefixSets = w.pickPrefixes(r)
			rc.InvertToMatchedDomainExpectedPrefixes = r.Chance(1, 3)
			if rc.InvertToDomains && !r.Chance(1, 8) {
				rc.InvertToDomains = false // the open combination is generated rarely
			}
		}
	}
	if present, rc.InvertToPrefixes = presence(r); present {
		rc.ToPrefixes, rc.ToPrefixSets = w.pickPrefixes(r)
	}
	rc.DisableNameResolutionForIPRules = r.Chance(1, 4)
	if len(rc.ToMatchedDomainExpectedPrefixes)+len(rc.ToMatchedDomainExpectedPrefixSets) > 0 ||
		!rc.DisableNameResolutionForIPRules && len(rc.ToPrefixes)+len(rc.ToPrefixSets) > 0 {
		w.mayResolve = true
	}
	w.Cfg.Routes = append(w.Cfg.Routes, rc)
	w.aux = append(w.aux, aux)
}

func (w *world) pickPrefixes(r *core.RNG) (list []netip.Prefix, sets []string) {
	names := core.SortedKeys(w.PrefixSets)
	useList := len(names) == 0 || r.Chance(3, 5)
	if useList {
		list = pickSome(r, w.base, r.Pick(1, 1, 2, 3))
	}
	if len(names) > 0 && (!useList || r.Chance(1, 3)) {
		sets = pickSome(r, names, r.Pick(1, 1, 2, 3))
	}
	return
}

// materialise writes the set files below dir and completes Cfg.
func (w *world) materialise(dir string) error {
	if err := os.MkdirAll(dir, 0o755); err != nil {
		return err
	}
	for _, name := range core.SortedKeys(w.dsText) {
		p := filepath.Join(dir, name+".txt")
		if err := os.WriteFile(p, []byte(w.dsText[name]), 0o644); err != nil {
			return err
		}
		w.Cfg.DomainSets = append(w.Cfg.DomainSets, domainset.Config{Name: name, Type: []string{"", "text"}[int(name[len(name)-1])%2], Path: p})
	}
	for _, name := range core.SortedKeys(w.psText) {
		p := filepath.Join(dir, name+".txt")
		if err := os.WriteFile(p, []byte(w.psText[name]), 0o644); err != nil {
			return err
		}
		w.Cfg.PrefixSets = append(w.Cfg.PrefixSets, prefixset.Config{Name: name, Path: p})
	}
	return nil
}

// witness is the configuration as evidence: the JSON a user would write plus the set files and resolver order.
func (w *world) witness() map[string]any {
	return map[string]any{
		"config": w.Cfg, "servers": w.Servers, "tcp_clients": w.TCP, "udp_clients": w.UDP,
		"resolvers_in_order": w.ResOrder, "domain_set_files": w.dsText, "prefix_set_files": w.psText,
	}
}

func sortedFeatures(w *world) []string {
	out := make([]string, 0, len(w.features))
	for f := range w.features {
		out = append(out, f)
	}
	sort.Strings(out)
	return out
}
